//! Driver + projection for actor identities (spec/Init.tla, property C20): init.Exec / Exec4, the
//! EAM's CreateExternal / Create / Create2 (the latter two issued by real EVM contracts running the
//! script contract U of calls.rs), self-destruct and resurrection, the VM's auto-creation of
//! accounts and placeholders.
//!
//! Addresses are logged by their *derivation* (see Init.tla): the driver computes every CREATE /
//! CREATE2 / CreateExternal address itself (own RLP + Keccak, calls.rs) from the inputs it observes
//! in the invocation tree, names the resulting bytes by that derivation, and logs `addrOK` = "the
//! address the real code returned is the one computed here".
use crate::calls::*;
use crate::minerctl::{create_bls_accounts, create_miner};
use crate::util::*;
use crate::vm::*;
use fil_actor_eam::{Create2Params, CreateParams, Return as EamReturn};
use fil_actor_init::{Exec4Params, ExecParams, ExecReturn, State as InitState};
use fil_actor_power::CreateMinerReturn;
use fil_actors_evm_shared::address::EthAddress;
use fil_actors_runtime::runtime::Policy;
use fil_actors_runtime::runtime::builtins::Type;
use fil_actors_runtime::test_utils::*;
use fil_actors_runtime::{
    DEFAULT_HAMT_CONFIG, EAM_ACTOR_ADDR, EAM_ACTOR_ID, INIT_ACTOR_ADDR, Map2, STORAGE_POWER_ACTOR_ADDR,
    SYSTEM_ACTOR_ADDR,
};
use fvm_ipld_encoding::RawBytes;
use fvm_shared::address::{Address, Payload};
use fvm_shared::econ::TokenAmount;
use fvm_shared::sector::RegisteredPoStProof;
use fvm_shared::{ActorID, METHOD_SEND};
use num_traits::Zero;
use serde_json::{Value, json};
use std::cell::{Cell, RefCell};
use std::collections::HashMap;
use vm_api::VM;

const FIRST_ID: ActorID = 100;

fn key_addr(seed: u64, i: u64) -> Address {
    // same construction as VVM::create_accounts
    let mut pk = [0u8; 65];
    pk[..8].copy_from_slice(&seed.to_be_bytes());
    pk[8..16].copy_from_slice(&i.to_be_bytes());
    pk[64] = 7;
    Address::new_secp256k1(&pk).unwrap()
}

fn raw_eth(name: &str) -> Eth {
    match name {
        "null" => [0u8; 20],
        "precompile" => {
            let mut a = [0u8; 20];
            a[19] = 5;
            a
        }
        "idlike" => id_to_eth(4321),
        _ => {
            let mut a: Eth = keccak256(format!("raw:{name}").as_bytes())[..20].try_into().unwrap();
            if a[0] == 0 || a[0] >= 0xfe {
                a[0] = 0x11;
            }
            a
        }
    }
}

fn salt_bytes(name: &str) -> [u8; 32] {
    let mut s = [0u8; 32];
    if let Some(n) = name.strip_prefix('s').and_then(|x| x.parse::<u8>().ok()) {
        s[31] = n;
    } else {
        s = keccak256(name.as_bytes());
    }
    s
}
fn salt_name(s: &[u8; 32]) -> String {
    if s[..31].iter().all(|&x| x == 0) { format!("s{}", s[31]) } else { hex::encode(&s[..6]) }
}

/// init code whose constructor calls its creator back with the script [CREATE(U)] -- the creator is
/// re-entered while its own CREATE is in progress -- and then returns U's runtime code.
/// Layout: 32-byte stub ++ script ++ runtime.
fn reenter_initcode() -> Vec<u8> {
    let script = encode(&[Cmd::Create { value: 0, init: u_initcode(1) }]);
    let rt = u_runtime(1);
    let w = |x: usize| (x as u16).to_be_bytes();
    let mut a = Asm::new();
    a.pushb(&w(script.len())).pushb(&w(32)).op(op::PUSH0).op(op::CODECOPY);
    a.op(op::PUSH0).op(op::PUSH0).pushb(&w(script.len())).op(op::PUSH0).op(op::PUSH0);
    a.op(op::CALLER).op(op::GAS).op(op::CALL).op(op::POP);
    a.pushb(&w(rt.len())).pushb(&w(32 + script.len())).op(op::PUSH0).op(op::CODECOPY);
    a.pushb(&w(rt.len())).op(op::PUSH0).op(op::RETURN);
    let mut c = a.assemble();
    assert_eq!(c.len(), 32);
    c.extend(script);
    c.extend(rt);
    c
}

pub fn none() -> Value {
    json!(["none"])
}

pub struct World {
    pub v: VVM,
    seed: u64,
    names: RefCell<HashMap<Vec<u8>, Value>>,
    rob_serial: Cell<u64>,
    worker: Address,
    last_msg: Cell<(u64, u64)>,
    inits: Vec<(&'static str, Vec<u8>)>,
}

impl World {
    /// genesis + two funded accounts k1, k2 + a BLS account (miner worker)
    pub fn new(seed: u64) -> World {
        let v = VVM::genesis(Policy::default());
        let bal = TokenAmount::from_whole(1_000_000);
        let bls = create_bls_accounts(&v, 1, seed, &TokenAmount::from_whole(10));
        let accts = v.create_accounts(2, seed, &bal);
        let w = World {
            v,
            seed,
            names: RefCell::new(HashMap::new()),
            rob_serial: Cell::new(0),
            worker: bls[0],
            last_msg: Cell::new((0, 0)),
            inits: vec![
                ("ok", u_initcode(1)),
                ("revert", vec![op::PUSH0, op::PUSH0, op::REVERT]),
                ("sd", vec![op::CALLER, op::SELFDESTRUCT]),
                ("empty", vec![]),
                ("reenter", reenter_initcode()),
            ],
        };
        for i in 0..2u64 {
            w.names.borrow_mut().insert(key_addr(seed, i).to_bytes(), json!(["key", format!("k{}", i + 1)]));
        }
        let _ = accts;
        w
    }

    /// The first message of every trace (logged and validated like any other): k1 deploys the script
    /// contract F = CreateExternal(k1, nonce 0); the result is the initial world of MC_Init.
    pub fn setup_call() -> Value {
        json!({"a": "CreateExternal", "from": ["key", "k1"], "init": "ok"})
    }

    pub fn initcode(&self, kind: &str) -> Vec<u8> {
        self.inits.iter().find(|(k, _)| *k == kind).unwrap_or_else(|| panic!("init kind {kind}")).1.clone()
    }
    fn init_kind(&self, code: &[u8]) -> String {
        self.inits.iter().find(|(_, c)| c == code).map(|(k, _)| k.to_string()).unwrap_or("other".into())
    }

    /// the Ethereum address an abstract f4 name stands for (own computation of the formulas)
    pub fn eth_of(&self, n: &Value) -> Eth {
        let e = match n[0].as_str().unwrap() {
            "raw" => raw_eth(n[1].as_str().unwrap()),
            "ext" => {
                let a = &n[1];
                let stable =
                    if a[0] == "key" { account_stable_eth(&self.real_of(a)) } else { self.eth_of(a) };
                create_address(&stable, n[2].as_u64().unwrap())
            }
            "c1" => create_address(&self.eth_of(&n[1]), n[2].as_u64().unwrap()),
            "c2" => create2_address(
                &self.eth_of(&n[1]),
                &salt_bytes(n[2].as_str().unwrap()),
                &self.initcode(n[3].as_str().unwrap()),
            ),
            // an address the real code produced that is NOT what the formulas give (only on a broken tree)
            "unk" => hex::decode(n[1].as_str().unwrap()).ok().and_then(|b| b.try_into().ok()).unwrap_or([0x33; 20]),
            t => panic!("not an f4 name: {t}"),
        };
        self.names.borrow_mut().entry(eth_to_f4(&e).to_bytes()).or_insert_with(|| n.clone());
        e
    }

    pub fn real_of(&self, n: &Value) -> Address {
        match n[0].as_str().unwrap() {
            "key" => {
                let k = n[1].as_str().unwrap();
                if k == "w1" {
                    return self.worker;
                }
                let i: u64 = k.strip_prefix('k').and_then(|x| x.parse().ok()).expect("key name kN");
                let a = key_addr(self.seed, i - 1);
                self.names.borrow_mut().entry(a.to_bytes()).or_insert_with(|| n.clone());
                a
            }
            "builtin" => match n[1].as_str().unwrap() {
                "eam" => EAM_ACTOR_ADDR,
                "power" => STORAGE_POWER_ACTOR_ADDR,
                "init" => INIT_ACTOR_ADDR,
                _ => SYSTEM_ACTOR_ADDR,
            },
            _ => eth_to_f4(&self.eth_of(n)),
        }
    }

    pub fn name_of(&self, a: &Address) -> Value {
        if let Some(n) = self.names.borrow().get(&a.to_bytes()) {
            return n.clone();
        }
        let n = match a.payload() {
            Payload::ID(i) => json!(["id", i]),
            Payload::Secp256k1(_) | Payload::BLS(_) => {
                json!(["key", format!("g{}", hex::encode(&a.to_bytes()[1..5]))])
            }
            Payload::Actor(_) => {
                self.rob_serial.set(self.rob_serial.get() + 1);
                json!(["f2", self.rob_serial.get()])
            }
            Payload::Delegated(d) => json!(["unk", hex::encode(d.subaddress())]),
        };
        self.names.borrow_mut().insert(a.to_bytes(), n.clone());
        n
    }

    fn init_map(&self) -> Vec<(Address, ActorID)> {
        let st: InitState = self.v.state(&INIT_ACTOR_ADDR).unwrap();
        let m = Map2::<&fil_actors_runtime::test_blockstores::MemoryBlockstore, Address, ActorID>::load(
            self.v.store.as_ref(),
            &st.address_map,
            DEFAULT_HAMT_CONFIG,
            "addresses",
        )
        .unwrap();
        let mut out = vec![];
        m.for_each(|k, v| {
            out.push((k, *v));
            Ok(())
        })
        .unwrap();
        out
    }

    pub fn project(&self) -> Value {
        let st: InitState = self.v.state(&INIT_ACTOR_ADDR).unwrap();
        let mut amap = vec![];
        let mut rob = vec![];
        let mut entries = self.init_map();
        entries.sort_by_key(|(a, i)| (*i, a.to_bytes()));
        for (a, i) in entries {
            let n = self.name_of(&a);
            if matches!(a.payload(), Payload::Actor(_)) { rob.push(json!([n, i])) } else { amap.push(json!([n, i])) }
        }
        let mut act = vec![];
        let mut resv = vec![];
        for (addr, a) in self.v.actor_states() {
            let id = addr.id().unwrap();
            if id < FIRST_ID {
                continue;
            }
            let ty = ACTOR_TYPES.get(&a.code).cloned();
            let code = match ty {
                Some(Type::Account) => "account".to_string(),
                Some(Type::Placeholder) => "placeholder".into(),
                Some(Type::EthAccount) => "ethaccount".into(),
                Some(Type::EVM) => "evm".into(),
                Some(Type::Multisig) => "multisig".into(),
                Some(Type::PaymentChannel) => "paych".into(),
                Some(Type::Miner) => "miner".into(),
                Some(t) => format!("{t:?}").to_lowercase(),
                None => "unknown".into(),
            };
            let own = if let Some(d) = &a.delegated_address {
                self.name_of(d)
            } else if ty == Some(Type::Account) {
                let s: fil_actor_account::State = self.v.state(&addr).unwrap();
                self.name_of(&s.address)
            } else {
                none()
            };
            let (mut nonce, mut tomb, mut hc) = (0u64, 0, false);
            if ty == Some(Type::EVM) {
                if let Some(s) = self.v.state::<fil_actor_evm::State>(&addr) {
                    nonce = s.nonce;
                    hc = s.bytecode_hash != fil_actor_evm::BytecodeHash::EMPTY;
                    tomb = match s.tombstone {
                        None => 0,
                        Some(t) if (t.origin, t.nonce) == self.last_msg.get() => 1,
                        Some(_) => 2,
                    };
                }
                if let Some(Payload::Delegated(d)) = a.delegated_address.as_ref().map(|x| *x.payload()) {
                    if d.namespace() != EAM_ACTOR_ID
                        || d.subaddress().len() != 20
                        || eth_reserved(&d.subaddress().try_into().unwrap())
                    {
                        resv.push(json!(id));
                    }
                } else {
                    resv.push(json!(id));
                }
            }
            act.push(json!([id, {"code": code, "addr": own, "nonce": nonce, "seq": a.sequence,
                                 "tomb": tomb, "hc": hc}]));
        }
        json!({"next": st.next_id, "amap": amap, "rob": rob, "act": act, "resv": resv})
    }

    fn to_cmds(&self, prog: &Value) -> Vec<Cmd> {
        prog.as_array()
            .unwrap()
            .iter()
            .map(|o| match o["op"].as_str().unwrap() {
                "create" => Cmd::Create { value: 0, init: self.initcode(o["init"].as_str().unwrap()) },
                "create2" => Cmd::Create2 {
                    value: 0,
                    salt: salt_bytes(o["salt"].as_str().unwrap()),
                    init: self.initcode(o["init"].as_str().unwrap()),
                },
                "call" => Cmd::Call {
                    kind: 0,
                    to: if o["to"][0] == "last" { [0u8; 20] } else { self.eth_of(&o["to"]) },
                    value: 0,
                    prog: self.to_cmds(&o["prog"]),
                },
                "destroy" => {
                    Cmd::Destroy(if o["ben"][0] == "caller" { [0u8; 20] } else { self.eth_of(&o["ben"]) })
                }
                "revert" => Cmd::Revert,
                x => panic!("unknown op {x}"),
            })
            .collect()
    }

    /// creation attempts observed in the invocation tree, in execution order
    fn attempts(
        &self,
        inv: &Inv,
        anc_ok: bool,
        top: bool,
        pre: &HashMap<Vec<u8>, ActorID>,
        msg_nonce: u64,
        seen: &mut HashMap<ActorID, Eth>,
        out: &mut Vec<Value>,
    ) {
        let is_eam = inv.to == EAM_ACTOR_ADDR && (2..=4).contains(&inv.method);
        if is_eam && inv.params.is_some() {
            let p = inv.params.as_ref().unwrap();
            let d = inv.from;
            let dact = self.v.actor(&Address::new_id(d));
            let deth: Option<Eth> = seen.get(&d).cloned().or_else(|| {
                dact.as_ref().and_then(|a| a.delegated_address).and_then(|x| match x.payload() {
                    Payload::Delegated(dd) if dd.subaddress().len() == 20 => {
                        Some(dd.subaddress().try_into().unwrap())
                    }
                    _ => None,
                })
            });
            let dname = |w: &World| match &deth {
                Some(e) => w.name_of(&eth_to_f4(e)),
                None => json!(["unk", "deployer"]),
            };
            let (kind, nonce, salt, init, target, f4): (&str, i64, String, Vec<u8>, Option<Eth>, Value) =
                match inv.method {
                    2 => {
                        let c: CreateParams = p.deserialize().unwrap();
                        let t = deth.map(|e| create_address(&e, c.nonce));
                        ("c1", c.nonce as i64, "-".into(), c.initcode, t, json!(["c1", dname(self), c.nonce]))
                    }
                    3 => {
                        let c: Create2Params = p.deserialize().unwrap();
                        let t = deth.map(|e| create2_address(&e, &c.salt, &c.initcode));
                        let k = self.init_kind(&c.initcode);
                        (
                            "c2",
                            -1,
                            salt_name(&c.salt),
                            c.initcode,
                            t,
                            json!(["c2", dname(self), salt_name(&c.salt), k]),
                        )
                    }
                    _ => {
                        let c: fil_actor_eam::CreateExternalParams = p.deserialize().unwrap();
                        // the origin's stable address: key-address hash for accounts, own address for eth accounts
                        let (stable, oname) = match deth {
                            Some(e) => (Some(e), self.name_of(&eth_to_f4(&e))),
                            None => match dact.as_ref().and_then(|_| {
                                self.v.state::<fil_actor_account::State>(&Address::new_id(d))
                            }) {
                                Some(s) => (Some(account_stable_eth(&s.address)), self.name_of(&s.address)),
                                None => (None, json!(["unk", "origin"])),
                            },
                        };
                        let t = stable.map(|e| create_address(&e, msg_nonce));
                        ("ext", msg_nonce as i64, "-".into(), c.0, t, json!(["ext", oname, msg_nonce]))
                    }
                };
            if let Some(t) = &target {
                self.names.borrow_mut().entry(eth_to_f4(t).to_bytes()).or_insert_with(|| f4.clone());
            }
            let ok = inv.exit.is_success();
            let mut at = json!({"d": d, "kind": kind, "nonce": nonce, "salt": salt,
                                "init": self.init_kind(&init), "f4": f4, "ok": ok, "id": 0, "how": "-",
                                "robust": none(), "kept": if top { ok } else { anc_ok }, "addrOK": true});
            if ok {
                let r: EamReturn = inv.ret.as_ref().unwrap().deserialize().unwrap();
                seen.insert(r.actor_id, r.eth_address.0);
                at["id"] = json!(r.actor_id);
                at["addrOK"] = json!(Some(r.eth_address.0) == target);
                at["how"] = json!(match &r.robust_address {
                    None => "resurrect",
                    Some(_) if pre.contains_key(&eth_to_f4(&r.eth_address.0).to_bytes()) => "placeholder",
                    Some(_) => "new",
                });
                if let Some(rb) = &r.robust_address {
                    at["robust"] = self.name_of(rb);
                }
            }
            out.push(at);
        }
        for s in &inv.subs {
            self.attempts(s, anc_ok && inv.exit.is_success(), false, pre, msg_nonce, seen, out);
        }
    }

    pub fn step(&self, call: &Value) -> Value {
        let a = call["a"].as_str().unwrap();
        let mut ev = call.clone();
        ev["ev"] = json!(a);
        ev["res"] = json!([]);
        ev["rid"] = json!(0);
        ev["robust"] = none();
        let from = self.real_of(&call["from"]);
        let Some(from_id) = self.v.resolve_id_address(&from).filter(|i| self.v.actor(i).is_some()) else {
            ev["ok"] = json!(false);
            ev["class"] = json!("no-sender");
            ev["st"] = self.project();
            return ev;
        };
        let msg_nonce = self.v.actor(&from_id).unwrap().sequence;
        let pre: HashMap<Vec<u8>, ActorID> = self.init_map().into_iter().map(|(k, v)| (k.to_bytes(), v)).collect();
        let zero = TokenAmount::zero();
        let k1 = self.v.resolve_id_address(&key_addr(self.seed, 0)).unwrap();
        let k2 = self.v.resolve_id_address(&key_addr(self.seed, 1)).unwrap();
        let o = match a {
            "Send" => {
                let hundred = TokenAmount::from_whole(100);
                let val = if self.v.balance(&from_id) >= hundred { hundred } else { zero.clone() };
                self.v.run(&from_id, &self.real_of(&call["to"]), &val, METHOD_SEND, None)
            }
            "Exec" => {
                let code = call["code"].as_str().unwrap();
                let ct = call["ct"].as_str().unwrap();
                let ok = call["ctorOK"].as_bool().unwrap();
                if code == "miner" && ct == "power" && call["from"][0] != "builtin" {
                    // system level: the power actor really is the immediate caller of init.Exec
                    let worker = if ok { self.worker } else { k2 };
                    let (_, o) = create_miner(
                        &self.v,
                        &from_id,
                        &worker,
                        RegisteredPoStProof::StackedDRGWindow32GiBV1P1,
                        &TokenAmount::from_whole(1000),
                    );
                    if o.ok() {
                        let r: CreateMinerReturn = o.de();
                        ev["rid"] = json!(r.id_address.id().unwrap());
                        ev["robust"] = self.name_of(&r.robust_address);
                    }
                    o
                } else {
                    // the immediate caller type `ct` is the sender's own type (built-in senders are impersonated)
                    let sender = from_id;
                    let (cid, params) = match code {
                        "multisig" => {
                            let mut signers = vec![k1];
                            if call["extra"][0] != "none" {
                                signers.push(self.real_of(&call["extra"]));
                            }
                            (
                                *MULTISIG_ACTOR_CODE_ID,
                                RawBytes::serialize(fil_actor_multisig::ConstructorParams {
                                    num_approvals_threshold: if ok { 1 } else { 7 },
                                    signers,
                                    unlock_duration: 0,
                                    start_epoch: 0,
                                })
                                .unwrap(),
                            )
                        }
                        "paych" => (
                            *PAYCH_ACTOR_CODE_ID,
                            RawBytes::serialize(fil_actor_paych::ConstructorParams {
                                from: k1,
                                // a failing constructor: an address that cannot be resolved or created
                                to: if ok { k2 } else { Address::new_actor(b"nobody") },
                            })
                            .unwrap(),
                        ),
                        // well-formed parameters: if the creator/code matrix let this through, the
                        // miner would really be created
                        "miner" => (
                            *MINER_ACTOR_CODE_ID,
                            RawBytes::serialize(fil_actor_miner::MinerConstructorParams {
                                owner: k1,
                                worker: self.worker,
                                control_addresses: vec![],
                                window_post_proof_type: RegisteredPoStProof::StackedDRGWindow32GiBV1P1,
                                peer_id: b"peer".to_vec(),
                                multi_addresses: vec![],
                            })
                            .unwrap(),
                        ),
                        "evm" => (*EVM_ACTOR_CODE_ID, RawBytes::default()),
                        "account" => (*ACCOUNT_ACTOR_CODE_ID, RawBytes::default()),
                        "placeholder" => (*PLACEHOLDER_ACTOR_CODE_ID, RawBytes::default()),
                        x => panic!("exec code {x}"),
                    };
                    let thousand = TokenAmount::from_whole(1000);
                    let val = if code == "miner" && self.v.balance(&sender) >= thousand { thousand } else { zero.clone() };
                    let o = self.v.run_p(
                        &sender,
                        &INIT_ACTOR_ADDR,
                        &val,
                        fil_actor_init::Method::Exec as u64,
                        &ExecParams { code_cid: cid, constructor_params: params },
                    );
                    if o.ok() {
                        let r: ExecReturn = o.de();
                        ev["rid"] = json!(r.id_address.id().unwrap());
                        ev["robust"] = self.name_of(&r.robust_address);
                    }
                    o
                }
            }
            "Exec4" => {
                let sender = from_id;
                let eth = self.eth_of(&call["f4"]);
                let ctor = fil_actor_evm::ConstructorParams {
                    creator: EthAddress(id_to_eth(k1.id().unwrap())),
                    initcode: RawBytes::new(self.initcode(call["init"].as_str().unwrap())),
                };
                // `code` (default evm): a non-EAM caller is also tried with a code whose constructor
                // would accept any f4 address, so that a widened caller check cannot hide
                let (cid, cparams) = if call["code"] == "multisig" {
                    (
                        *MULTISIG_ACTOR_CODE_ID,
                        RawBytes::serialize(fil_actor_multisig::ConstructorParams {
                            num_approvals_threshold: 1,
                            signers: vec![k1],
                            unlock_duration: 0,
                            start_epoch: 0,
                        })
                        .unwrap(),
                    )
                } else {
                    (*EVM_ACTOR_CODE_ID, RawBytes::serialize(ctor).unwrap())
                };
                let o = self.v.run_p(
                    &sender,
                    &INIT_ACTOR_ADDR,
                    &zero,
                    fil_actor_init::Method::Exec4 as u64,
                    &Exec4Params { code_cid: cid, constructor_params: cparams, subaddress: RawBytes::new(eth.to_vec()) },
                );
                if o.ok() {
                    let r: ExecReturn = o.de();
                    ev["rid"] = json!(r.id_address.id().unwrap());
                    ev["robust"] = self.name_of(&r.robust_address);
                }
                o
            }
            "CreateExternal" => {
                let (o, r) =
                    create_external(&self.v, &from_id, &self.initcode(call["init"].as_str().unwrap()), &zero);
                if let Some(r) = r {
                    ev["rid"] = json!(r.actor_id);
                    if let Some(rb) = &r.robust_address {
                        ev["robust"] = self.name_of(rb);
                    }
                }
                o
            }
            "Retire" => {
                // Settle, wait out the settling delay, Collect: the youngest payment channel deletes itself
                let mut ps: Vec<ActorID> = self
                    .v
                    .actor_states()
                    .iter()
                    .filter(|(_, a)| ACTOR_TYPES.get(&a.code) == Some(&Type::PaymentChannel))
                    .map(|(k, _)| k.id().unwrap())
                    .collect();
                ps.sort();
                match ps.last() {
                    None => panic!("Retire without a payment channel"),
                    Some(p) => {
                        let pa = Address::new_id(*p);
                        let o1 = self.v.run(&from_id, &pa, &zero, fil_actor_paych::Method::Settle as u64, None);
                        self.v.set_epoch(self.v.epoch() + fil_actor_paych::SETTLE_DELAY + 1);
                        let o2 = self.v.run(&from_id, &pa, &zero, fil_actor_paych::Method::Collect as u64, None);
                        ev["rid"] = json!(*p);
                        ev["settle_ok"] = json!(o1.ok());
                        o2
                    }
                }
            }
            "Invoke" => {
                let cd = encode(&self.to_cmds(&call["prog"]));
                invoke(&self.v, &from_id, &self.real_of(&call["to"]), &cd, &zero).0
            }
            x => panic!("unknown call {x}"),
        };
        // tombstones are relative to the message just executed
        self.last_msg.set((from_id.id().unwrap(), if a == "Retire" { msg_nonce + 1 } else { msg_nonce }));
        let mut res = vec![];
        self.attempts(&o.inv, true, true, &pre, msg_nonce, &mut HashMap::new(), &mut res);
        ev["res"] = json!(res);
        ev["ok"] = json!(o.ok());
        ev["class"] = json!(o.class());
        ev["msg"] = json!(o.message);
        ev["st"] = self.project();
        ev
    }
}

// ------------------------------------------------------------------------------------------------
// guided random schedules (impl -> spec direction): longer and deeper programs than the model's
// alphabet, repeated salts, sends to addresses that later creations produce, more senders

const INITS: [&str; 8] = ["ok", "ok", "ok", "revert", "sd", "empty", "ok", "reenter"];

fn random_prog(rng: &mut Rng, depth: u32, contracts: &[Value]) -> Value {
    let n = rng.range(1, if depth == 0 { 4 } else { 3 });
    let mut ops = vec![];
    for _ in 0..n {
        let salt = format!("s{}", rng.range(1, 3));
        let o = match rng.below(100) {
            0..=24 => json!({"op": "create", "init": *rng.pick(&INITS)}),
            25..=49 => json!({"op": "create2", "salt": salt, "init": *rng.pick(&INITS)}),
            50..=74 if depth < 3 => {
                let to = if rng.chance(45) || contracts.is_empty() {
                    json!(["last"])
                } else {
                    rng.pick(contracts).clone()
                };
                json!({"op": "call", "to": to, "prog": random_prog(rng, depth + 1, contracts)})
            }
            75..=87 => {
                let ben = match rng.below(100) {
                    0..=59 => json!(["caller"]),
                    60..=84 => json!(["raw", format!("x{}", rng.range(1, 3))]),
                    _ if !contracts.is_empty() => json!(["c2", rng.pick(contracts).clone(), salt, "ok"]),
                    _ => json!(["caller"]),
                };
                json!({"op": "destroy", "ben": ben})
            }
            88..=93 => json!({"op": "revert"}),
            _ => json!({"op": "create", "init": "ok"}),
        };
        ops.push(o);
    }
    json!(ops)
}

fn random_call(rng: &mut Rng, w: &World) -> Value {
    let st = w.project();
    let mut contracts = vec![];
    let mut nonces = vec![];
    let mut senders = vec![json!(["key", "k1"]), json!(["key", "k1"]), json!(["key", "k2"])];
    let mut placeholders = vec![];
    let mut seqs: HashMap<String, u64> = HashMap::new();
    for a in st["act"].as_array().unwrap() {
        let r = &a[1];
        match r["code"].as_str().unwrap() {
            "evm" => {
                contracts.push(r["addr"].clone());
                nonces.push(r["nonce"].as_u64().unwrap());
            }
            "placeholder" | "ethaccount" => {
                placeholders.push(r["addr"].clone());
                if r["addr"][0] == "raw" {
                    senders.push(r["addr"].clone());
                }
            }
            _ => {}
        }
        seqs.insert(r["addr"].to_string(), r["seq"].as_u64().unwrap());
    }
    let has_paych = st["act"].as_array().unwrap().iter().any(|a| a[1]["code"] == "paych");
    if has_paych && rng.chance(8) {
        return json!({"a": "Retire", "from": ["key", "k1"]});
    }
    // life-cycle bias: destroy a CREATE2 child, later re-create it at the same address (resurrection)
    if rng.chance(12) {
        let c2s: Vec<&Value> = st["act"].as_array().unwrap().iter()
            .filter(|a| a[1]["code"] == "evm" && a[1]["addr"][0] == "c2").collect();
        if !c2s.is_empty() {
            let x = *rng.pick(&c2s);
            let name = &x[1]["addr"];
            return if x[1]["tomb"] == 0 && x[1]["hc"] == true {
                json!({"a": "Invoke", "from": ["key", "k1"], "to": name.clone(),
                       "prog": [{"op": "destroy", "ben": ["caller"]}]})
            } else {
                json!({"a": "Invoke", "from": ["key", "k1"], "to": name[1].clone(),
                       "prog": [{"op": "create2", "salt": name[2].clone(), "init": name[3].clone()},
                                {"op": "call", "to": ["last"], "prog": [{"op": "create", "init": "ok"}]}]})
            };
        }
    }
    let from = rng.pick(&senders).clone();
    let users = [json!(["key", "k1"]), json!(["key", "k2"]), json!(["raw", "e1"])];
    match rng.below(100) {
        0..=44 if !contracts.is_empty() => {
            json!({"a": "Invoke", "from": from, "to": rng.pick(&contracts).clone(),
                   "prog": random_prog(rng, 0, &contracts)})
        }
        45..=56 => json!({"a": "CreateExternal", "from": from, "init": *rng.pick(&INITS)}),
        57..=74 => {
            // plain sends: new keys, new f4 addresses, addresses of future creations
            let to = match rng.below(100) {
                0..=14 => json!(["key", format!("k{}", rng.range(3, 5))]),
                15..=34 => json!(["raw", *rng.pick(&["e1", "e2", "x1", "x2", "x3"])]),
                35..=54 => {
                    let u = rng.pick(&users).clone();
                    let mut s = seqs.get(&u.to_string()).cloned().unwrap_or(0);
                    if u == from {
                        s += 1;
                    }
                    json!(["ext", u, s + rng.below(2)])
                }
                55..=79 if !contracts.is_empty() => {
                    json!(["c2", rng.pick(&contracts).clone(), format!("s{}", rng.range(1, 3)), *rng.pick(&INITS)])
                }
                _ if !contracts.is_empty() => {
                    let i = rng.below(contracts.len() as u64) as usize;
                    json!(["c1", contracts[i].clone(), nonces[i] + rng.below(2)])
                }
                _ => json!(["key", "k3"]),
            };
            json!({"a": "Send", "from": from, "to": to})
        }
        75..=87 => {
            let ok = rng.chance(70);
            let extra = if rng.chance(40) { json!(["key", format!("k{}", rng.range(3, 5))]) } else { none() };
            match rng.below(10) {
                0..=2 => json!({"a": "Exec", "from": from, "ct": "account", "code": "multisig", "ctorOK": ok, "extra": extra}),
                3..=4 => json!({"a": "Exec", "from": from, "ct": "account", "code": "paych", "ctorOK": ok, "extra": none()}),
                5 => json!({"a": "Exec", "from": ["key", "k1"], "ct": "power", "code": "miner", "ctorOK": ok, "extra": none()}),
                6 => json!({"a": "Exec", "from": from, "ct": "account",
                            "code": *rng.pick(&["miner", "evm", "account", "placeholder"]), "ctorOK": true, "extra": none()}),
                7 => json!({"a": "Exec", "from": ["builtin", "power"], "ct": "power",
                            "code": *rng.pick(&["evm", "account", "multisig", "paych"]), "ctorOK": true, "extra": none()}),
                _ => json!({"a": "Exec", "from": ["builtin", "eam"], "ct": "eam",
                            "code": *rng.pick(&["evm", "miner", "multisig"]), "ctorOK": true, "extra": none()}),
            }
        }
        _ => {
            let mut targets = vec![json!(["raw", "e2"]), json!(["raw", "x1"]), json!(["raw", "x3"])];
            targets.extend(contracts.iter().cloned());
            targets.extend(placeholders.iter().cloned());
            let f4 = rng.pick(&targets).clone();
            match rng.below(10) {
                0..=6 => json!({"a": "Exec4", "from": ["builtin", "eam"], "ct": "eam", "f4": f4,
                                "init": *rng.pick(&["ok", "ok", "revert", "sd"])}),
                7..=8 => json!({"a": "Exec4", "from": from, "ct": "account", "f4": f4, "init": "ok",
                                "code": *rng.pick(&["evm", "multisig"])}),
                _ => json!({"a": "Exec4", "from": ["builtin", "power"], "ct": "power", "f4": f4, "init": "ok",
                            "code": *rng.pick(&["evm", "multisig"])}),
            }
        }
    }
}

pub fn main(args: &[String]) {
    // the binary silences the panic hook (actor panics are outcomes); a panic of the DRIVER itself
    // must still be visible
    let r = std::panic::catch_unwind(std::panic::AssertUnwindSafe(|| main_inner(args)));
    if let Err(p) = r {
        let m = p.downcast_ref::<String>().cloned().or_else(|| p.downcast_ref::<&str>().map(|s| s.to_string()));
        eprintln!("initd driver panicked: {}", m.unwrap_or_default());
        std::process::exit(3);
    }
}

fn main_inner(args: &[String]) {
    self_test();
    let out = arg(args, "--out").expect("--out");
    let seed = arg_u64(args, "--seed", 1);
    let mut t = TraceOut::create(out);
    let mut sched_out = arg(args, "--schedules").map(TraceOut::create);
    let mut first = true;
    let mut begin = |t: &mut TraceOut, w: &World| {
        let ev = if first { "Init" } else { "Reset" };
        first = false;
        t.line(&json!({"ev": ev, "const": {}, "st": w.project()}));
        t.traces += 1;
    };
    if let Some(b) = arg(args, "--behaviours") {
        for (i, beh) in read_behaviours(b).iter().enumerate() {
            let w = World::new(seed + i as u64);
            begin(&mut t, &w);
            t.line(&w.step(&World::setup_call()));
            for call in beh {
                t.line(&w.step(call));
            }
            if let Some(s) = sched_out.as_mut() {
                s.line(&json!(beh));
            }
        }
    }
    let n = arg_u64(args, "--random", 0);
    let len = arg_u64(args, "--len", 12);
    let mut rng = Rng::new(seed);
    for i in 0..n {
        let w = World::new(seed.wrapping_mul(1000) + i);
        begin(&mut t, &w);
        t.line(&w.step(&World::setup_call()));
        let mut calls = vec![];
        for _ in 0..len {
            let call = random_call(&mut rng, &w);
            t.line(&w.step(&call));
            calls.push(call);
        }
        if let Some(s) = sched_out.as_mut() {
            s.line(&json!(calls));
        }
    }
    t.flush();
    if let Some(s) = sched_out.as_mut() {
        s.flush();
    }
    println!("{}", json!({"driver": "initd", "traces": t.traces, "events": t.events}));
}
