#!/bin/bash
# mutscratch.sh <name|clean> : apply /tmp/acc-patches/<name>.diff to the scratch worktree /tmp/acc-mut, rebuild the scratch copy
# of the harness (path deps -> /tmp/acc-mut), run the access matrix, validate with TLC.  /repo and /verif are not touched.
name=$1
W=/tmp/acc-patches/work_$name; mkdir -p $W
cd /tmp/acc-mut && git checkout -q -- . && { [ "$name" = "clean" ] || git apply /tmp/acc-patches/$name.diff; } || { echo "$name: patch failed"; exit 2; }
rsync -a /verif/harness/drivers/src/ /tmp/acc-harness/drivers/src/
rsync -a /verif/harness/vvm/src/ /tmp/acc-harness/vvm/src/
cd /tmp/acc-harness && cargo build --release --offline -j 4 > $W/build.log 2>&1 || { echo "$name: BUILD FAILED"; grep -E "^error" -A8 $W/build.log | head -30; cd /tmp/acc-mut && git checkout -q -- .; exit 2; }
cd /tmp/acc-mut && git checkout -q -- .
/tmp/acc-harness/target/release/drive access --out $W/trace.ndjson --schedules $W/sched.ndjson --seed 1 --behaviours /tmp/acc/beh.ndjson --fixtures A,B --modes default,success > $W/drive.out 2>&1 || { echo "$name: DRIVER FAILED rc=$?"; tail -3 $W/drive.out; }
cp /verif/spec/Trace_Access.cfg.in $W/T.cfg
cd $W && TRACE=$W/trace.ndjson JAVA_TOOL_OPTIONS="-Xss1g -Dtlc2.tool.queue.IStateQueue=StateDeque" timeout 3000 tlc -workers 1 -metadir $W/meta -cleanup -noGenerateSpecTE -config $W/T.cfg /verif/spec/Trace_Access.tla > $W/tlc.out 2>&1
ok=$(grep -c "Model checking completed. No error" $W/tlc.out)
echo "$name tlc_completed=$ok events=$(wc -l < $W/trace.ndjson)"; python3 /tmp/acc-patches/summ.py $W
