import sys, re, json, collections
w=sys.argv[1]
rows=open(w+'/trace.ndjson').read().splitlines()
out=open(w+'/tlc.out').read()
c=collections.Counter(); d=collections.Counter()
for m in re.finditer(r'^<<"(VIOL|DRIFT)", (.*)>>$', out, re.M):
    f=[x.strip().strip('"') for x in m.group(2).split(",")]
    if m.group(1)=="VIOL":
        e=json.loads(rows[int(f[2])-1]); c[(f[1], e["ev"]+("/"+e["var"] if e["var"] else ""))]+=1
    else:
        e=json.loads(rows[int(f[1])-1]); d[(f[2], e["ev"])]+=1
print("   VIOL:", "; ".join(f"{k[0]}:{k[1]} x{v}" for k,v in c.most_common(12)) or "none")
if d: print("   DRIFT:", "; ".join(f"{k[0]}:{k[1]} x{v}" for k,v in d.most_common(6)))
