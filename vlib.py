"""Shared machinery of /verif/check: building the harness, running TLC (model checking, simulation
export, trace validation), driving the real actors, evidence and verdicts.  Python 3 stdlib only."""
import hashlib
import json
import os
import re
import shutil
import subprocess
import sys
import time

VERIF = os.path.dirname(os.path.abspath(__file__))
# The registered checks always run against /repo with /verif/harness and write under /verif.  The three
# VERIF_ALT_* variables exist only for tools/mutpriv.sh, which tests a seeded change in a PRIVATE copy of
# the repository (and a private copy of the harness pointing at it) so that several changes can be
# tried in parallel without touching /repo; nothing registered in MANIFEST.json sets them.
REPO = os.environ.get("VERIF_ALT_REPO", "/repo")
SPEC = os.environ.get("VERIF_ALT_SPEC", os.path.join(VERIF, "spec"))
HARNESS = os.environ.get("VERIF_ALT_HARNESS", os.path.join(VERIF, "harness"))
OUT = os.environ.get("VERIF_ALT_OUT", VERIF)
WORK = os.path.join(OUT, "work")
CACHE = os.path.join(VERIF, "cache")           # model-checking results (keyed by the spec files only)
TRCACHE = os.path.join(OUT, "cache")           # driven traces (keyed by the repository tree)
REPLAYS = os.path.join(OUT, "replays")
EVIDENCE = os.path.join(OUT, "evidence")
DRIVE = os.path.join(HARNESS, "target", "release", "drive")
TLA_JAR = "/opt/veriftools/tla/tla2tools.jar"


class ToolError(Exception):
    pass


def log(*a):
    print(*a, file=sys.stderr, flush=True)


def sh(cmd, cwd=None, env=None, timeout=None, stdin=None):
    e = dict(os.environ)
    if env:
        e.update(env)
    t0 = time.time()
    try:
        p = subprocess.run(cmd, cwd=cwd, env=e, timeout=timeout, stdout=subprocess.PIPE,
                           stderr=subprocess.STDOUT, text=True, input=stdin)
    except subprocess.TimeoutExpired as ex:
        out = ex.stdout if isinstance(ex.stdout, str) else (ex.stdout or b"").decode(errors="replace")
        return 124, out, time.time() - t0
    return p.returncode, p.stdout, time.time() - t0


# --------------------------------------------------------------------------------------------
# keys: every cached artefact is keyed by the content of /repo's working tree + /verif sources

def repo_key():
    rc, head, _ = sh(["git", "-C", REPO, "rev-parse", "HEAD"])
    rc, diff, _ = sh(["git", "-C", REPO, "diff", "HEAD"])
    rc, untracked, _ = sh(["git", "-C", REPO, "ls-files", "--others", "--exclude-standard"])
    h = hashlib.sha256()
    h.update(head.encode())
    h.update(diff.encode())
    for f in sorted(untracked.split()):
        p = os.path.join(REPO, f)
        if os.path.isfile(p) and not f.startswith("target/"):
            h.update(f.encode())
            with open(p, "rb") as fh:
                h.update(fh.read())
    return h.hexdigest()[:16]


def verif_key():
    h = hashlib.sha256()
    for root in (SPEC, os.path.join(HARNESS, "vvm", "src"), os.path.join(HARNESS, "drivers", "src")):
        for d, _, files in sorted(os.walk(root)):
            for f in sorted(files):
                p = os.path.join(d, f)
                h.update(p.encode())
                with open(p, "rb") as fh:
                    h.update(fh.read())
    for f in ("vlib.py", "suites.py", "check", "known_findings.json", "harness/Cargo.toml"):
        p = os.path.join(VERIF, f)
        if os.path.exists(p):
            with open(p, "rb") as fh:
                h.update(fh.read())
    return h.hexdigest()[:16]


def spec_deps(module, seen=None):
    """Spec files a module depends on (EXTENDS / INSTANCE, transitively), restricted to /verif/spec."""
    seen = seen if seen is not None else set()
    p = os.path.join(SPEC, module + ".tla")
    if module in seen or not os.path.exists(p):
        return seen
    seen.add(module)
    with open(p) as f:
        txt = f.read()
    names = set()
    for m in re.finditer(r"^\s*EXTENDS\s+([^\n]+)", txt, re.M):
        names |= {x.strip() for x in m.group(1).split(",")}
    for m in re.finditer(r"INSTANCE\s+(\w+)", txt):
        names.add(m.group(1))
    for n in names:
        spec_deps(n, seen)
    return seen


def files_key(paths):
    h = hashlib.sha256()
    for p in sorted(paths):
        if os.path.exists(p):
            h.update(p.encode())
            with open(p, "rb") as fh:
                h.update(fh.read())
    return h.hexdigest()[:16]


def mc_key(module, cfgs):
    paths = [os.path.join(SPEC, m + ".tla") for m in spec_deps(module)]
    paths += [os.path.join(SPEC, c) for c in cfgs]
    return files_key(paths)


def trace_key(trace_module, cfg_in, sim=None):
    mods = set(spec_deps(trace_module))
    paths = [os.path.join(SPEC, cfg_in)]
    if sim:
        mods |= spec_deps(sim["module"])
        paths.append(os.path.join(SPEC, sim["cfg"]))
    paths += [os.path.join(SPEC, m + ".tla") for m in mods]
    for root in (os.path.join(HARNESS, "vvm", "src"), os.path.join(HARNESS, "drivers", "src")):
        for d, _, files in sorted(os.walk(root)):
            paths += [os.path.join(d, f) for f in files]
    paths += [os.path.join(VERIF, f) for f in ("vlib.py", "check", "known_findings.json", "harness/Cargo.toml")]
    return files_key(paths)


# --------------------------------------------------------------------------------------------
# harness build (always from /repo's current working tree: the crates are path dependencies)

def build_harness():
    lock = os.path.join(HARNESS, "Cargo.lock")
    if not os.path.exists(lock):
        shutil.copy(os.path.join(REPO, "Cargo.lock"), lock)
    t0 = time.time()
    rc, out, _ = sh(["cargo", "build", "--release", "--offline"], cwd=HARNESS,
                    env={"CARGO_NET_OFFLINE": "true"}, timeout=3600)
    if rc != 0:
        # a stale lock (repo dependencies changed) is the one thing worth retrying
        shutil.copy(os.path.join(REPO, "Cargo.lock"), lock)
        rc, out, _ = sh(["cargo", "build", "--release", "--offline"], cwd=HARNESS,
                        env={"CARGO_NET_OFFLINE": "true"}, timeout=3600)
    if rc != 0:
        raise ToolError("harness build failed:\n" + out[-4000:])
    return time.time() - t0


# --------------------------------------------------------------------------------------------
# TLC

def _tlc_cmd(extra, cfg, module, workers, metadir):
    return ["tlc", "-workers", str(workers), "-metadir", metadir, "-cleanup", "-noGenerateSpecTE",
            "-config", cfg] + extra + [module]


def tlc_mc(module, cfg, wdir, workers=8, timeout=900, lib=None):
    """Exhaustive model checking with coverage.  Returns dict(states, distinct, depth, actions,
    violated, out)."""
    os.makedirs(wdir, exist_ok=True)
    meta = os.path.join(wdir, "meta_mc_" + os.path.basename(cfg))
    env = {"JAVA_TOOL_OPTIONS": "-Xss512m"}
    cmd = _tlc_cmd(["-coverage", "1"], os.path.join(SPEC, cfg), os.path.join(SPEC, module + ".tla"),
                   workers, meta)
    rc, out, dt = sh(cmd, cwd=wdir, env=env, timeout=timeout)
    shutil.rmtree(meta, ignore_errors=True)
    res = {"rc": rc, "wall_s": dt, "out": out, "module": module, "cfg": cfg}
    # A run that hits its time budget is not a failure: every state explored so far satisfied the invariants
    # (TLC stops at the first violation), the result is just not exhaustive.  The last progress line gives the
    # counts; there is no coverage table, so the vacuity check is skipped by the caller (timed_out = True).
    res["timed_out"] = rc == 124
    ms = re.findall(r"([\d,]+) states generated(?: \([\d,]+ s/min\))?, ([\d,]+) distinct states found(?: \([\d,]+ ds/min\))?, ([\d,]+) states left on queue", out)
    m = None
    if ms:
        class _M:
            def __init__(self, t): self.t = [x.replace(",", "") for x in t]
            def group(self, i): return self.t[i - 1]
        m = _M(ms[-1])
    if not m:
        raise ToolError(f"TLC produced no state count for {module}/{cfg}" + (" before its time budget ended" if rc == 124 else "") + ":\n" + out[-3000:])
    res["states_generated"] = int(m.group(1))
    res["distinct"] = int(m.group(2))
    res["left"] = int(m.group(3))
    d = re.search(r"depth of the complete state graph search is (\d+)", out)
    res["depth"] = int(d.group(1)) if d else 0
    acts = {}
    for am in re.finditer(r"^<(\w+) line \d+, col \d+ to line \d+, col \d+ of module (\w+)(?: \([\d ]+\))?>: (\d+):(\d+)", out, re.M):
        acts[am.group(1)] = acts.get(am.group(1), 0) + int(am.group(4))
    res["actions"] = acts
    viol = None
    vm = re.search(r"Invariant (\w+) is violated", out)
    if vm:
        viol = vm.group(1)
    vm = re.search(r"Action property (\w+) is violated|Temporal properties were violated|is violated", out)
    if vm and not viol:
        viol = vm.group(1) or "property"
    if "Error:" in out and not viol and res["left"] == 0 and rc != 0:
        raise ToolError(f"TLC error on {module}/{cfg}:\n" + out[-3000:])
    res["violated"] = viol
    # transition tour: behaviours printed by the model's Tour action constraint, one per signature
    tour = {}
    for m in re.finditer(r'^<<"REPLAY", "(.*)">>$', out, re.M):
        try:
            d = json.loads(m.group(1).encode().decode("unicode_escape"))
        except Exception:
            continue
        if isinstance(d, dict) and "sig" in d and d["sig"] not in tour:
            tour[d["sig"]] = d["calls"]
    res["tour"] = [tour[k] for k in sorted(tour)]
    # keep the log small: drop the REPLAY lines
    res["out"] = re.sub(r'^<<"REPLAY".*$\n?', "", out, flags=re.M)
    return res


def tlc_sim(module, cfg, wdir, num, depth, seed, timeout=900):
    """Simulation with behaviour export: returns a list of behaviours (lists of call records)."""
    os.makedirs(wdir, exist_ok=True)
    meta = os.path.join(wdir, "meta_sim_" + os.path.basename(cfg))
    cmd = ["tlc", "-workers", "1", "-simulate", f"num={num}", "-depth", str(depth), "-seed", str(seed),
           "-metadir", meta, "-noGenerateSpecTE", "-config", os.path.join(SPEC, cfg),
           os.path.join(SPEC, module + ".tla")]
    rc, out, dt = sh(cmd, cwd=wdir, env={"JAVA_TOOL_OPTIONS": "-Xss512m"}, timeout=timeout)
    shutil.rmtree(meta, ignore_errors=True)
    # (a simulation that runs out of time is not a failure: the behaviours exported so far are used)
    if re.search(r"is violated|Error: ", out) and "REPLAY" not in out:
        raise ToolError(f"TLC simulation failed on {module}/{cfg}:\n" + out[-3000:])
    behs = []
    seen_prefix = {}
    for m in re.finditer(r'^<<"REPLAY", "(.*)">>$', out, re.M):
        s = m.group(1).encode().decode("unicode_escape")
        try:
            b = json.loads(s)
        except Exception:
            continue
        # TLC evaluates the export invariant on every candidate successor: keep a few per prefix
        key = json.dumps(b[:-1], sort_keys=True)
        k = seen_prefix.get(key, 0)
        if k < 2:
            seen_prefix[key] = k + 1
            behs.append(b)
    violated = bool(re.search(r"is violated", out))
    return {"behaviours": behs, "wall_s": dt, "violated": violated, "out": out}


def tlc_trace(module, cfg_in, consts, trace, wdir, timeout=1800, extra_modules=(), workers=1, split=1):
    """Validate one ndjson trace file.  Returns dict(viol=[...], drift=[...], accepted, states).
    split=K > 1: the file holds many independent traces (each begins with an Init/Reset line); they are
    dealt into K chunk files validated by K TLC processes in parallel, and the line numbers of the
    reported VIOL/DRIFT tuples are mapped back to the lines of the original file."""
    os.makedirs(wdir, exist_ok=True)
    if split > 1:
        return _tlc_trace_split(module, cfg_in, consts, trace, wdir, timeout, workers, split)
    with open(os.path.join(SPEC, cfg_in)) as f:
        cfg = f.read()
    for k, v in consts.items():
        cfg = cfg.replace("@" + k + "@", str(v))
    if "@" in cfg:
        raise ToolError("unbound constant in " + cfg_in + ": " + cfg)
    cfgp = os.path.join(wdir, module + ".cfg")
    with open(cfgp, "w") as f:
        f.write(cfg)
    meta = os.path.join(wdir, "meta_trace_" + module)
    env = {"TRACE": trace,
           "JAVA_TOOL_OPTIONS": "-Xss1g -Dtlc2.tool.queue.IStateQueue=StateDeque"}
    cmd = ["tlc", "-workers", str(workers), "-metadir", meta, "-cleanup", "-noGenerateSpecTE",
           "-config", cfgp, os.path.join(SPEC, module + ".tla")]
    rc, out, dt = sh(cmd, cwd=wdir, env=env, timeout=timeout)
    shutil.rmtree(meta, ignore_errors=True)
    if rc == 124:
        raise ToolError(f"trace validation timed out ({module})")
    viol, drift, notes = [], [], []
    # TLC pretty-prints long tuples over several lines: match across newlines
    for m in re.finditer(r'<<\s*"(VIOL|DRIFT|NOTE)",(.*?)>>', out, re.S):
        fields = [x.strip().strip('"') for x in m.group(2).replace("\n", " ").split(",")]
        (viol if m.group(1) == "VIOL" else drift if m.group(1) == "DRIFT" else notes).append(fields)
    sm = re.search(r"(\d+) states generated, (\d+) distinct states found", out)
    accepted = "Model checking completed. No error has been found." in out
    if not sm or (not accepted):
        raise ToolError(f"trace validation did not complete ({module}):\n" + out[-4000:])
    return {"viol": viol, "drift": drift, "notes": notes, "accepted": accepted,
            "states": int(sm.group(2)), "wall_s": dt, "out": out}


def _tlc_trace_split(module, cfg_in, consts, trace, wdir, timeout, workers, split):
    import concurrent.futures
    with open(trace) as f:
        lines = [x for x in f if x.strip()]
    starts = [i for i, x in enumerate(lines) if re.match(r'\s*\{.*"ev"\s*:\s*"(Init|Reset)"', x)
              and json.loads(x).get("ev") in ("Init", "Reset")]
    if not starts or starts[0] != 0:
        raise ToolError("trace does not begin with an Init line: " + trace)
    bounds = starts + [len(lines)]
    traces = [(bounds[i], bounds[i + 1]) for i in range(len(starts))]
    k = max(1, min(split, len(traces)))
    # contiguous groups of traces with about the same number of lines
    per = len(lines) / k
    groups, cur, acc = [], [], 0
    for (a, b) in traces:
        cur.append((a, b))
        acc += b - a
        if acc >= per * (len(groups) + 1) and len(groups) < k - 1:
            groups.append(cur)
            cur = []
    if cur:
        groups.append(cur)
    jobs = []
    for gi, g in enumerate(groups):
        cdir = os.path.join(wdir, f"chunk{gi}")
        os.makedirs(cdir, exist_ok=True)
        cpath = os.path.join(cdir, "trace.ndjson")
        lo = g[0][0]
        with open(cpath, "w") as f:
            for j in range(g[0][0], g[-1][1]):
                x = lines[j]
                if j == lo:
                    r = json.loads(x)
                    r["ev"] = "Init"
                    x = json.dumps(r) + "\n"
                f.write(x)
        jobs.append((cdir, cpath, lo))
    t0 = time.time()
    res = {"viol": [], "drift": [], "notes": [], "accepted": True, "states": 0, "out": ""}
    with concurrent.futures.ThreadPoolExecutor(max_workers=k) as ex:
        futs = [(lo, ex.submit(tlc_trace, module, cfg_in, consts, cpath, cdir, timeout, (), workers, 1))
                for (cdir, cpath, lo) in jobs]
        for lo, fu in futs:
            r = fu.result()
            for key, pos in (("viol", 2), ("drift", 1)):
                for fields in r[key]:
                    if len(fields) > pos and fields[pos].isdigit():
                        fields[pos] = str(int(fields[pos]) + lo)
                    res[key].append(fields)
            res["notes"] += r["notes"]
            res["states"] += r["states"]
            res["out"] += r["out"][-2000:]
    for (cdir, _, _) in jobs:
        shutil.rmtree(cdir, ignore_errors=True)
    res["wall_s"] = time.time() - t0
    res["chunks"] = len(jobs)
    return res


# --------------------------------------------------------------------------------------------
# driver

def drive(subsystem, args, timeout=3600):
    rc, out, dt = sh([DRIVE, subsystem] + [str(a) for a in args], timeout=timeout)
    if rc != 0:
        raise ToolError(f"driver {subsystem} failed (rc={rc}):\n" + out[-4000:])
    last = [l for l in out.strip().splitlines() if l.startswith("{")]
    info = json.loads(last[-1]) if last else {}
    info["wall_s"] = dt
    info["stdout"] = out
    return info


def read_ndjson(path):
    out = []
    with open(path) as f:
        for line in f:
            line = line.strip()
            if line:
                out.append(json.loads(line))
    return out


def write_ndjson(path, rows):
    with open(path, "w") as f:
        for r in rows:
            f.write(json.dumps(r) + "\n")


def trace_index_of_line(trace_rows, l):
    """Which trace (0-based count of Init/Reset lines before or at 1-based line l) and the offset
    of line l inside it."""
    idx = -1
    start = 0
    for i, r in enumerate(trace_rows[:l], start=1):
        if r.get("ev") in ("Init", "Reset"):
            idx += 1
            start = i
    return idx, l - start


# --------------------------------------------------------------------------------------------
# known findings

def load_known_findings():
    p = os.path.join(VERIF, "known_findings.json")
    if not os.path.exists(p):
        return []
    with open(p) as f:
        return json.load(f).get("findings", [])


def match_finding(findings, prop, name, tag):
    for kf in findings:
        if kf.get("status", "open") != "open":
            continue
        if kf["property"] == prop and kf.get("formula") in (None, name) and kf.get("tag") == tag:
            return kf
    return None
