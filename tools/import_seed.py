#!/usr/bin/env python3
"""tools/import_seed.py <PID> <k> -- copy a seeded change that the lead has confirmed (tools/confirm_seed.sh:
demo passes on the clean tree, fails with the change, existing tests of the touched crates + test_vm pass with the
change) from /tmp/seedout into /verif/seeded/<PID>-<k>/ with its meta.json."""
import json, os, re, shutil, sys, glob
pid, k = sys.argv[1], sys.argv[2]
src = f"/tmp/seedout/{pid}/{k}"
dst = f"/verif/seeded/{pid}-{k}"
res = None
for log in sorted(glob.glob("/tmp/seedout/confirm_wave*.log")):
    for line in open(log):
        m = re.match(rf"\[{pid}-{k}\] RESULT demo_clean_rc=(\d+) .* demo_mut_rc=(\d+) .* existing_tests_rc=(\d+) .* crates=(.*)", line)
        if m:
            res = m
if not res or res.group(1) != "0" or res.group(2) == "0" or res.group(3) != "0":
    sys.exit(f"{pid}-{k}: not confirmed ({res.group(0) if res else 'no RESULT line'})")
os.makedirs(dst, exist_ok=True)
shutil.copy(f"{src}/patch.diff", f"{dst}/patch.diff")
for f in glob.glob(f"{src}/*.rs"):
    shutil.copy(f, dst)
meta = json.load(open(f"{src}/meta.json"))
out = {
    "property": pid,
    "breaks": meta.get("summary"),
    "needs_to_manifest": meta.get("needs"),
    "files": meta.get("files"),
    "demonstration": {"file": [os.path.basename(f) for f in glob.glob(f"{src}/*.rs")], "place_at": meta.get("demo_path"),
                      "command": meta.get("demo_cmd")},
    "author": "fresh sub-agent given only the property text and a scratch worktree (nothing from /verif)",
    "confirmed_by_lead": {
        "how": "tools/confirm_seed.sh in a scratch worktree: demonstration on the clean tree, demonstration with the "
               "change applied, `cargo test -p <touched crates>` and `cargo test -p test_vm` with the change applied",
        "demo_on_clean_tree_rc": int(res.group(1)), "demo_with_change_rc": int(res.group(2)),
        "existing_tests_with_change_rc": int(res.group(3)), "crates_tested": res.group(4).split() + ["test_vm"],
    },
}
old = f"{dst}/meta.json"
if os.path.exists(old):
    prev = json.load(open(old))
    if "detection" in prev:
        out["detection"] = prev["detection"]
json.dump(out, open(old, "w"), indent=1)
print("imported", dst)
