#!/bin/bash
# tools/mutrace.sh <patch> <driver> <TraceModule> <cfgfile> [driver args...] -- quick look: random traces of a mutated tree
set -u
patch=$(readlink -f "$1"); drv=$2; mod=$3; cfg=$(readlink -f "$4"); shift 4
exec 9>/tmp/verif-repo.lock; flock 9
cd /repo && git diff --quiet || { echo dirty; exit 2; }
git apply "$patch" || exit 2
trap 'git -C /repo checkout -- .; cd /verif/harness && cargo build --release --offline >/dev/null 2>&1' EXIT
cd /verif/harness && cargo build --release --offline 2>&1 | grep -E "^error" -A5
w=/tmp/vt/mutrace; rm -rf $w; mkdir -p $w; cd $w
/verif/harness/target/release/drive $drv --out $w/trace.ndjson --schedules $w/sched.ndjson "$@"
TRACE=$w/trace.ndjson JAVA_TOOL_OPTIONS="-Xss1g -Dtlc2.tool.queue.IStateQueue=StateDeque" timeout 900 tlc -workers 1 -metadir $w/meta -cleanup -noGenerateSpecTE -config $cfg /verif/spec/$mod.tla 2>&1 | grep "DRIFT\|VIOL\|Error" | awk '{print $1,$2,$3}' | sort | uniq -c | sort -rn | head -12
