#!/bin/bash
# tools/mutdrive.sh <patch.diff> <suite> <drive args...>  -- development aid: build a private harness against a private
# worktree of /repo with the patch applied, run ONE driver invocation there and validate its trace with the suite's trace
# spec (tools/tv.py).  Nothing in /repo or /verif is touched; everything is removed at the end.
set -u
patch=$(readlink -f "$1"); suite=$2; shift 2
n=$$
wt=/tmp/md-$n; hz=/tmp/md-$n-h
cleanup() { git -C /repo worktree remove --force $wt >/dev/null 2>&1; rm -rf $wt $hz; }
trap cleanup EXIT
git -C /repo worktree add --detach $wt HEAD >/dev/null 2>&1 || { echo "worktree failed"; exit 2; }
git -C $wt apply "$patch" || { echo "patch does not apply"; exit 2; }
mkdir -p $hz
rsync -a --exclude target --exclude Cargo.lock /verif/harness/ $hz/
find $hz -name Cargo.toml -exec sed -i "s#\"/repo/#\"$wt/#g; s#\"/repo\"#\"$wt\"#g" {} +
cp $wt/Cargo.lock $hz/Cargo.lock
cp -a /verif/harness/target $hz/target 2>/dev/null
( cd $hz && CARGO_NET_OFFLINE=true cargo build --release --offline -j ${MUT_JOBS:-8} > $hz/build.log 2>&1 ) || { echo "build failed"; tail -20 $hz/build.log; exit 2; }
out=/tmp/md-$n-trace.ndjson
$hz/target/release/drive $suite --out $out --schedules /tmp/md-$n-sched.ndjson "$@" || { echo "drive failed"; exit 2; }
[ -n "${KEEP_TRACE:-}" ] && cp $out "$KEEP_TRACE"
python3 /verif/tools/tv.py $suite $out ${TV_SPLIT:-6}
rm -f $out /tmp/md-$n-sched.ndjson
