#!/usr/bin/env python3
"""tools/seed_table.py -- (re)generate seeded/README.md from seeded/*/meta.json"""
import glob, json, os
rows = []
for d in sorted(glob.glob("/verif/seeded/*/")):
    mp = os.path.join(d, "meta.json")
    if not os.path.exists(mp):
        continue
    m = json.load(open(mp))
    sid = os.path.basename(d.rstrip("/"))
    det = m.get("detection", [])
    dets = "; ".join(f"`check {x['check']}` ({x['tier']}): **{x['verdict']}** — {x['note']}" for x in det) or "not yet run"
    rows.append((sid, m["property"], (m.get("breaks") or "").replace("\n", " ").replace("|", "/")[:420],
                 (m.get("needs_to_manifest") or "").replace("\n", " ").replace("|", "/")[:300], dets))
with open("/verif/seeded/README.md", "w") as f:
    f.write("# Independently seeded changes\n\n"
            "Each directory holds `patch.diff` (applies to /repo), the author's demonstration test and `meta.json`.\n"
            "Written by fresh sub-agents that saw only the property text; confirmed by the lead with\n"
            "`tools/confirm_seed.sh` (demo passes clean / fails with the change; `cargo test` of the touched crates and\n"
            "of `test_vm` passes with the change). Run against the checks with `tools/mutest.sh seeded/<id>/patch.diff <check>`.\n\n"
            "| id | property | change | needs | detection |\n|---|---|---|---|---|\n")
    for r in rows:
        f.write("| " + " | ".join(r) + " |\n")
# compact summary (pasted into DESIGN.md section 0.6)
with open("/verif/seeded/SUMMARY.md", "w") as f:
    f.write("| seeded change | breaks | files | last verdict of the quick check | how |\n|---|---|---|---|---|\n")
    for d in sorted(glob.glob("/verif/seeded/*/")):
        mp = os.path.join(d, "meta.json")
        if not os.path.exists(mp):
            continue
        m = json.load(open(mp))
        sid = os.path.basename(d.rstrip("/"))
        det = m.get("detection", [])
        last = det[-1] if det else {"verdict": "not run", "note": ""}
        first_missed = any(x["verdict"] == "missed" for x in det[:-1]) or "missed at first" in last["note"]
        verdict = last["verdict"] + (" (after strengthening)" if last["verdict"] == "caught" and first_missed else "")
        files = ", ".join(os.path.basename(x) if x.count("/") < 2 else "/".join(x.split("/")[1:]) for x in (m.get("files") or []))[:80]
        brk = (m.get("breaks") or "").replace("\n", " ").replace("|", "/")
        f.write(f"| {sid} | {brk[:150]}… | {files} | **{verdict}** | {last['note'][:220].replace('|','/')} |\n")
print(len(rows), "rows")
