#!/bin/bash
# tools/confirm_seed.sh <PID> <k> : independently confirm a seeded change in its scratch worktree /tmp/wt-<PID>
# (a) compiles + existing tests of touched crates pass with the change, (c) demo fails with / passes without.
set -u
pid=$1; k=$2; wt=/tmp/wt-$pid; out=/tmp/seedout/$pid/$k
export CARGO_TARGET_DIR=$wt/target
cd $wt || exit 2
git checkout -q -- . ; git clean -fdq -e out -e target
demo_path=$(python3 -c "import json;print(json.load(open('$out/meta.json'))['demo_path'].split()[0])")
demo_cmd=$(python3 -c "import json;print(json.load(open('$out/meta.json'))['demo_cmd'])")
demo_cmd=$(echo "$demo_cmd" | sed -e 's/CARGO_TARGET_DIR=[^ ]* //')
crates=$(git apply --numstat $out/patch.diff | awk '{print $3}' | sed -E 's#^actors/([a-z]+)/.*#fil_actor_\1#; s#^runtime/.*#fil_actors_runtime#' | sort -u)
demo_file=$(ls $out/*.rs | head -1)
mkdir -p $(dirname $demo_path); cp $demo_file $demo_path
echo "[$pid-$k] demo on clean tree: $demo_cmd"
( eval "$demo_cmd" ) > $out/confirm_clean.log 2>&1; rc_clean=$?
git apply $out/patch.diff || { echo "[$pid-$k] PATCH DOES NOT APPLY"; exit 2; }
( eval "$demo_cmd" ) > $out/confirm_mut.log 2>&1; rc_mut=$?
rm -f $demo_path
rc_tests=0
for c in $crates; do
  cargo test -p $c --offline -j 8 > $out/confirm_tests_$c.log 2>&1 || rc_tests=1
done
cargo test -p test_vm --offline -j 8 > $out/confirm_tests_test_vm.log 2>&1 || rc_tests=1
git checkout -q -- . ; git clean -fdq -e out -e target
echo "[$pid-$k] RESULT demo_clean_rc=$rc_clean (want 0) demo_mut_rc=$rc_mut (want !=0) existing_tests_rc=$rc_tests (want 0) crates=$crates"
