#!/bin/bash
# kill java (TLC) processes whose command line contains $1
ps -eo pid,comm,args | awk -v pat="$1" '$2=="java" && index($0, pat) {print $1}' | xargs -r kill
