#!/bin/bash
# tools/mutpriv.sh <patch.diff> <PROPERTY-ID> [tier] -- test a seeded change WITHOUT touching /repo: a private worktree of
# /repo's HEAD gets the patch, a private copy of the harness (path deps rewritten to the worktree, own target dir) is
# built against it and `check` runs with VERIF_ALT_* pointing there (no global lock, own evidence / replay / trace-cache
# directories under the scratch dir; model-checking results are shared from /verif/cache).  Everything is removed at the end.
# Result line:  MUTPRIV <patch> check=<ID> rc=<rc> [VIOLATION ...]
set -u
patch=$(readlink -f "$1"); pid=$2; tier=${3:-quick}
n=$$
wt=/tmp/mp-$n; hz=/tmp/mp-$n-h; out=/tmp/mp-$n-out
cleanup() { git -C /repo worktree remove --force $wt >/dev/null 2>&1; rm -rf $wt $hz $out; }
trap cleanup EXIT
git -C /repo worktree add --detach $wt HEAD >/dev/null 2>&1 || { echo "MUTPRIV $patch check=$pid rc=2 worktree failed"; exit 2; }
git -C $wt apply "$patch" || { echo "MUTPRIV $patch check=$pid rc=2 patch does not apply"; exit 2; }
mkdir -p $hz $out
# snapshot of the specs too, so that edits made in /verif while this runs cannot skew spec and harness
cp -r /verif/spec $out/spec
rsync -a --exclude target --exclude Cargo.lock /verif/harness/ $hz/
find $hz -name Cargo.toml -exec sed -i "s#\"/repo/#\"$wt/#g; s#\"/repo\"#\"$wt\"#g" {} +
cp $wt/Cargo.lock $hz/Cargo.lock
# start from a copy of the main build output: the registry crates are reused, only the actors rebuild
cp -a /verif/harness/target $hz/target 2>/dev/null
( cd $hz && CARGO_NET_OFFLINE=true cargo build --release --offline -j ${MUT_JOBS:-6} > $out/build.log 2>&1 ) || { echo "MUTPRIV $patch check=$pid rc=2 build failed (see below)"; tail -20 $out/build.log; exit 2; }
cd /verif
VERIF_ALT_REPO=$wt VERIF_ALT_HARNESS=$hz VERIF_ALT_OUT=$out VERIF_ALT_SPEC=$out/spec ./check "$pid" --tier "$tier" > $out/check.log 2>&1
rc=$?
v=$(grep -m1 -E '^VIOLATION|^TOOL-ERROR' $out/check.log)
mkdir -p /tmp/mut; cp $out/check.log /tmp/mut/priv-$(basename $(dirname $patch))-$pid.log
echo "MUTPRIV $patch check=$pid rc=$rc $v"
exit $rc
