#!/bin/bash
# tools/mutqueue.sh <parallel> "<seed-id>:<check>" ...   -- run tools/mutpriv.sh over a list, N at a time; results in /tmp/mut/QUEUE.log
par=$1; shift
mkdir -p /tmp/mut
cp /verif/tools/mutpriv.sh /tmp/mut/mutpriv.frozen.sh     # immune to edits of the original while the queue runs
for spec in "$@"; do
  while [ "$(jobs -rp | wc -l)" -ge "$par" ]; do sleep 10; done
  IFS=: read sid chk <<<"$spec"
  p=/verif/seeded/$sid/patch.diff; [ -f "$p" ] || p=/tmp/seedout/${sid%-*}/${sid#*-}/patch.diff
  ( /tmp/mut/mutpriv.frozen.sh "$p" "$chk" 2>&1 | grep MUTPRIV | sed "s/^/$(date -u +%H:%M) $sid /" >> /tmp/mut/QUEUE.log ) &
  sleep 2
done
wait
echo "$(date -u +%H:%M) queue done" >> /tmp/mut/QUEUE.log
