#!/usr/bin/env python3
"""tools/record_detection.py <PID>-<k> <check-id> <caught|missed|n/a> "<note>"  -- record in seeded/<id>/meta.json what
`tools/mutest.sh seeded/<id>/patch.diff <check-id> quick` reported (the lead runs it; nothing is written at check time)."""
import json, sys
sid, chk, verdict, note = sys.argv[1:5]
p = f"/verif/seeded/{sid}/meta.json"
m = json.load(open(p))
d = [x for x in m.get("detection", []) if x["check"] != chk]
d.append({"check": chk, "tier": "quick", "verdict": verdict, "note": note})
m["detection"] = d
json.dump(m, open(p, "w"), indent=1)
