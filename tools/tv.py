#!/usr/bin/env python3
"""tools/tv.py <suite> <trace.ndjson> [split] -- validate one recorded trace file with the suite's trace spec (development aid)."""
import sys, os, json, collections
sys.path.insert(0, os.path.dirname(os.path.dirname(os.path.abspath(__file__))))
import vlib
from suites import SUITES
suite = SUITES[sys.argv[1]]
trace = os.path.abspath(sys.argv[2])
split = int(sys.argv[3]) if len(sys.argv) > 3 else 4
rows = vlib.read_ndjson(trace)
consts = rows[0].get("const", {})
tr = vlib.tlc_trace(suite["trace"]["module"], suite["trace"]["cfg_in"], consts, trace, "/tmp/tv-%d" % os.getpid(),
                    workers=suite["trace"].get("workers", 1), timeout=3600, split=split)
print("events", len(rows), "states", tr["states"], "wall", round(tr["wall_s"], 1))
c = collections.Counter((v[0], v[1], v[3]) for v in tr["viol"])
for k, n in c.most_common():
    print("VIOL", k, n, "first line", min(int(v[2]) for v in tr["viol"] if (v[0], v[1], v[3]) == k))
d = collections.Counter((v[0], v[2]) for v in tr["drift"])
for k, n in d.most_common():
    print("DRIFT", k, n, "first line", min(int(v[1]) for v in tr["drift"] if (v[0], v[2]) == k))
for n in tr["notes"][:5]:
    print("NOTE", n)
