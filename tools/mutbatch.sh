#!/bin/bash
# tools/mutbatch.sh "<PID>:<k>[:<checkPID>]" ...  -- run seeded changes from /tmp/seedout (or /verif/seeded) one after the other
mkdir -p /tmp/mut
for spec in "$@"; do
  IFS=: read pid k chk <<<"$spec"; chk=${chk:-$pid}
  p=/verif/seeded/$pid-$k/patch.diff; [ -f "$p" ] || p=/tmp/seedout/$pid/$k/patch.diff
  log=/tmp/mut/$pid-$k-$chk.log
  t0=$(date +%s)
  /verif/tools/mutest.sh "$p" "$chk" quick > "$log" 2>&1
  rc=$?
  echo "$(date -u +%H:%M:%S) MUT $pid-$k check=$chk rc=$rc $(( $(date +%s) - t0 ))s $(grep -m1 -E '^VIOLATION|does not apply|TOOL-ERROR' "$log")" >> /tmp/mut/SUMMARY.log
done
