#!/bin/bash
# tools/run_all.sh [tier] -- run every claimed check on /repo's current tree, one after the other, and validate the evidence files.
tier=${1:-quick}
cd /verif
ids=$(python3 -c "import json; print(' '.join(c['property_id'] for c in json.load(open('MANIFEST.json'))['checks']))")
mkdir -p /tmp/runall
for id in $ids; do
  t0=$(date +%s)
  ./check $id --tier $tier > /tmp/runall/$id.log 2>&1
  rc=$?
  echo "$(date -u +%H:%M) $id rc=$rc $(( $(date +%s) - t0 ))s $(grep -c '^KNOWN-FINDING' /tmp/runall/$id.log) known $(grep -c '^DRIFT' /tmp/runall/$id.log) drift $(grep -m1 -E '^VIOLATION|^TOOL-ERROR' /tmp/runall/$id.log)" | tee -a /tmp/runall/SUMMARY.log
done
python3-vt - <<'PY'
import json, jsonschema, glob
sch = json.load(open('/root/.vp/EVIDENCE.schema.json'))
for f in sorted(glob.glob('/verif/evidence/*.json')):
    try:
        jsonschema.validate(json.load(open(f)), sch); print(f, 'ok')
    except Exception as e:
        print(f, 'BAD', str(e)[:200])
PY
