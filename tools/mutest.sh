#!/bin/bash
# tools/mutest.sh <patch.diff> <PROPERTY-ID> [tier]  -- apply a seeded change to /repo, run the check, always undo.
# Holds the global /tmp/verif-repo.lock for the whole time so that no other check sees the modified tree.
set -u
patch=$(readlink -f "$1"); pid=$2; tier=${3:-quick}
exec 9>/tmp/verif-repo.lock
flock 9
cd /repo || exit 2
if ! git diff --quiet; then echo "repo has uncommitted changes; refusing"; exit 2; fi
git apply "$patch" || { echo "patch does not apply"; exit 2; }
trap 'git -C /repo checkout -- .' EXIT
cd /verif
# evidence, replays and the trace cache of a run on a modified tree go to a scratch directory, never to /verif
mkdir -p /tmp/verif-mutest-out
VERIF_LOCK_HELD=1 VERIF_ALT_OUT=/tmp/verif-mutest-out ./check "$pid" --tier "$tier"
rc=$?
git -C /repo checkout -- .
echo "mutest: check exit code $rc"
exit $rc
