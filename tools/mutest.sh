#!/bin/bash
# tools/mutest.sh <patch.diff> <PROPERTY-ID> [tier]  -- apply a seeded change to /repo, run the check, always undo.
set -u
patch=$(readlink -f "$1"); pid=$2; tier=${3:-quick}
cd /repo || exit 2
if ! git diff --quiet; then echo "repo has uncommitted changes; refusing"; exit 2; fi
git apply "$patch" || { echo "patch does not apply"; exit 2; }
cd /verif
./check "$pid" --tier "$tier"
rc=$?
git -C /repo checkout -- .
echo "mutest: check exit code $rc"
exit $rc
