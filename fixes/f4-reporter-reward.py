p='/repo/actors/miner/src/lib.rs'
s=open(p).read()
old='''        let (burn_amount, reward_amount) = rt.transaction(|st: &mut State, rt| {
            let mut info = get_miner_info(rt.store(), st)?;

            // Verify miner hasn't already been faulted'''
assert old in s, "site 1"
s=s.replace(old,old.replace("let (burn_amount, reward_amount)","let (mut burn_amount, reward_amount)"))
old='''        if let Err(e) =
            extract_send_result(rt.send_simple(&reporter, METHOD_SEND, None, reward_amount))
        {
            error!("failed to send reward: {}", e);
        }
'''
new='''        if let Err(e) = extract_send_result(rt.send_simple(
            &reporter,
            METHOD_SEND,
            None,
            reward_amount.clone(),
        )) {
            error!("failed to send reward: {}", e);
            // The reward was deducted from the penalty; if it can't be paid out it is still owed.
            burn_amount += reward_amount;
        }
'''
assert old in s, "site 2"
s=s.replace(old,new)
open(p,'w').write(s)
print("applied")
