#!/usr/bin/env python3
"""Apply the F7 repair to <repo>/actors/miner/src/lib.rs (argument: repo path, default /repo).
F7: ExtendSectorExpiration2 -- a sector declared with claims in one declaration and again (with or without claims) in
another declaration of the same message is extended to the second declaration's expiration, which was never checked
against the claims' maximum terms (the claim-space map is keyed by sector number for the whole message)."""
import sys
repo = sys.argv[1] if len(sys.argv) > 1 else "/repo"
p = repo + "/actors/miner/src/lib.rs"
s = open(p).read()
old = '''        for sc in &decl.sectors_with_claims {
            let mut drop_claims = sc.drop_claims.clone();'''
new = '''        for sc in &decl.sectors_with_claims {
            // the claims are checked against this declaration's expiration only
            if claim_space_by_sector.contains_key(&sc.sector_number) {
                return Err(actor_error!(
                    illegal_argument,
                    "sector {} declared with claims more than once",
                    sc.sector_number
                ));
            }
            let mut drop_claims = sc.drop_claims.clone();'''
assert old in s
s = s.replace(old, new, 1)
old = '''    Ok(ExtendExpirationsInner {
        extensions: extensions.into_iter().map(|e2| e2.into()).collect(),
        claims: Some(claim_space_by_sector),'''
new = '''    // a sector declared with claims may not also be extended, unchecked, as a sector without claims
    for decl in &extensions {
        if let Some(sector_number) = claim_space_by_sector.keys().find(|n| decl.sectors.get(**n)) {
            return Err(actor_error!(
                illegal_argument,
                "sector {} declared both with and without claims",
                sector_number
            ));
        }
    }
    Ok(ExtendExpirationsInner {
        extensions: extensions.into_iter().map(|e2| e2.into()).collect(),
        claims: Some(claim_space_by_sector),'''
assert old in s
s = s.replace(old, new, 1)
open(p, "w").write(s)
print("applied")
