"""Suite table: which TLA+ modules, configs, drivers and trace specs serve which property.

A *suite* is one subsystem: an exhaustive model-checking config (MC), a simulation/export config
(behaviours -> real actors), a driver in the harness, and a trace spec that validates the recorded
real executions.  Several properties may share a suite (their formulas are tagged with the property
id inside the trace spec), and a property may need several suites."""


def tiered(q, t):
    return lambda tier: t if tier == "thorough" else q


SUITES = {
    "paych": dict(
        mc=[dict(module="MC_Paych", cfg=tiered("MC_Paych.cfg", "MC_Paych_thorough.cfg"),
                 timeout=tiered(900, 3600), workers=tiered(6, 14))],
        sim=dict(module="MC_Paych", cfg="Sim_Paych.cfg", num=tiered(150, 3000), depth=16),
        driver="paych",
        driver_args=lambda tier: ["--random", 300 if tier == "quick" else 10000, "--len", 30],
        trace=dict(module="Trace_Paych", cfg_in="Trace_Paych.cfg.in"),
        props=["C16"],
    ),
    "multisig": dict(
        mc=[dict(module="MC_Multisig", cfg=tiered("MC_Multisig.cfg", "MC_Multisig_thorough.cfg"),
                 timeout=tiered(900, 3600), workers=tiered(6, 14))],
        sim=dict(module="MC_Multisig", cfg="Sim_Multisig.cfg", num=tiered(100, 2000), depth=18),
        driver="multisig",
        driver_args=lambda tier: ["--random", 250 if tier == "quick" else 8000, "--len", 30],
        trace=dict(module="Trace_Multisig", cfg_in="Trace_Multisig.cfg.in"),
        props=["C12"],
    ),
    "minerctl": dict(
        mc=[dict(module="MC_MinerControl", cfg="MC_MinerControl.cfg", timeout=tiered(900, 3600), workers=tiered(6, 14))],
        sim=dict(module="MC_MinerControl", cfg="Sim_MinerControl.cfg", num=tiered(150, 3000), depth=20),
        tour_cap=tiered(1200, 10 ** 9),
        driver="minerctl",
        driver_args=lambda tier: ["--random", 250 if tier == "quick" else 8000, "--len", 30],
        trace=dict(module="Trace_MinerControl", cfg_in="Trace_MinerControl.cfg.in"),
        props=["C13", "C14"],
    ),
    "market": dict(
        mc=[dict(module="MC_Market", cfg=tiered("MC_Market_q1.cfg", "MC_Market_thorough.cfg"),
                 timeout=tiered(1800, 5400), workers=tiered(6, 14)),
            dict(module="MC_Market", cfg="MC_Market_q2.cfg", timeout=tiered(1800, 3600), workers=tiered(6, 14),
                 may_be_dead=["TickStep"])],   # q2 explores two deals at a single epoch (no ticks)
        sim=dict(module="MC_Market", cfg="Sim_Market.cfg", num=tiered(100, 2000), depth=24),
        tour_cap=tiered(1500, 10 ** 9),
        driver="market",
        driver_args=lambda tier: ["--random", 150 if tier == "quick" else 5000, "--len", 50],
        trace=dict(module="Trace_Market", cfg_in="Trace_Market.cfg.in"),
        props=["C06", "C07", "C08", "C01", "C05"],
    ),
    "initd": dict(
        mc=[dict(module="MC_Init", cfg=tiered("MC_Init.cfg", "MC_Init_thorough.cfg"),
                 timeout=tiered(900, 5400), workers=tiered(4, 8))],
        sim=dict(module="MC_Init", cfg="Sim_Init.cfg", num=tiered(20, 600), depth=14),
        tour_cap=tiered(900, 10 ** 9),
        driver="initd",
        driver_args=lambda tier: ["--random", 200 if tier == "quick" else 6000, "--len", 14],
        trace=dict(module="Trace_Init", cfg_in="Trace_Init.cfg.in"),
        props=["C20"],
    ),
    "evm17": dict(
        mc=[dict(module="MC_EVM", cfg=tiered("MC_EVM.cfg", "MC_EVM_thorough.cfg"),
                 timeout=tiered(1500, 5400), workers=tiered(6, 8))],
        driver="evm17",
        # --cases Q: operand pairs per arithmetic/comparison/bitwise instruction from the boundary lattice
        # (0 = all pairs); --other P: percentage of the memory/copy/storage/flow case families;
        # --tiny N: byte strings of the model checker's alphabets; --random N: generated programs
        driver_args=lambda tier: (["--cases", 60, "--other", 35, "--illformed", 1, "--tiny", 300, "--random", 150]
                                  if tier == "quick" else
                                  ["--cases", 0, "--other", 100, "--illformed", 1, "--tiny", 100000, "--random", 2500]),
        trace=dict(module="Trace_EVM", cfg_in="Trace_EVM.cfg.in", workers=6, timeout=5400),
        props=["C17", "C18"],
    ),
    "evm18": dict(
        mc=[dict(module="MC_EVM", cfg=tiered("MC_EVM.cfg", "MC_EVM_thorough.cfg"),
                 timeout=tiered(1500, 5400), workers=tiered(6, 8))],
        driver="evm18",
        # arbitrary byte strings as runtime code (--bytes random, --grammar instruction sequences, --mutated from
        # valid programs), as init code (--init; each also called afterwards), beneath STATICCALL chains (--static)
        driver_args=lambda tier: (["--bytes", 3000, "--grammar", 1500, "--mutated", 150, "--init", 300,
                                   "--static", 1200, "--illformed", 1, "--tiny", 200, "--edge", 69]
                                  if tier == "quick" else
                                  ["--bytes", 40000, "--grammar", 20000, "--mutated", 2000, "--init", 3000,
                                   "--static", 15000, "--illformed", 1, "--tiny", 100000, "--edge", 256]),
        trace=dict(module="Trace_EVM18", cfg_in="Trace_EVM18.cfg.in", workers=6, timeout=5400),
        props=["C18", "C17"],
    ),
    "verif": dict(
        mc=[dict(module="MC_VerifReg", cfg="MC_VerifReg.cfg", timeout=tiered(1800, 3600), workers=tiered(6, 14))],
        sim=dict(module="MC_VerifReg", cfg="Sim_VerifReg.cfg", num=tiered(100, 2000), depth=22),
        tour_cap=tiered(1500, 10 ** 9),
        driver="verif",
        driver_args=lambda tier: ["--random", 150 if tier == "quick" else 5000, "--len", 40],
        trace=dict(module="Trace_VerifReg", cfg_in="Trace_VerifReg.cfg.in"),
        props=["C09", "C10"],
    ),
    "sectors": dict(
        # the lifecycle model of one miner with the real tiny-policy numbers: exhaustive, with a transition tour
        mc=[dict(module="MC_Sectors", cfg=tiered("MC_Sectors.cfg", "MC_Sectors_thorough.cfg"),
                 timeout=tiered(1500, 5400), workers=tiered(6, 14))],
        sim=dict(module="MC_Sectors", cfg="Sim_Sectors.cfg", num=tiered(10, 300), depth=40),
        tour_cap=tiered(160, 5000),
        driver="sectors",
        driver_args=lambda tier: ["--random", 12 if tier == "quick" else 600, "--len", 120],
        # the trace file holds independent traces: validated by several TLC processes in parallel
        trace=dict(module="Trace_Sectors", cfg_in="Trace_Sectors.cfg.in", timeout=4 * 3600, split=tiered(6, 14)),
        props=["C02", "C03", "C04", "C05", "C14", "C15", "C01"],
    ),
    "evmcalls": dict(
        mc=[dict(module="MC_EVMCalls", cfg=tiered("MC_EVMCalls.cfg", "MC_EVMCalls_thorough.cfg"),
                 timeout=tiered(900, 5400), workers=tiered(4, 8))],
        sim=dict(module="MC_EVMCalls", cfg="Sim_EVMCalls.cfg", num=tiered(12, 300), depth=10),
        tour_cap=tiered(1500, 10 ** 9),
        driver="evmcalls",
        driver_args=lambda tier: ["--random", 250 if tier == "quick" else 6000, "--len", 10],
        trace=dict(module="Trace_EVMCalls", cfg_in="Trace_EVMCalls.cfg.in"),
        props=["C19"],
    ),
    "access": dict(
        # the matrix is finite: TLC enumerates every (actor type, method number / variant, caller class)
        # cell and the driver executes each of them in both parameter modes on two fixture states;
        # thorough adds a third seed-varied pass (different account keys / ids)
        mc=[dict(module="MC_Access", cfg="MC_Access.cfg", timeout=tiered(900, 1800), workers=2)],
        driver="access",
        driver_args=lambda tier: (["--fixtures", "A,B", "--modes", "default,success"] if tier == "quick" else
                                  ["--fixtures", "A,B", "--modes", "default,success", "--reseed", 2]),
        trace=dict(module="Trace_Access", cfg_in="Trace_Access.cfg.in", workers=1, timeout=3600),
        props=["C11"],
    ),
    "claims": dict(
        # verified onboarding: registry x miner x power x cron.  The exhaustive model uses the driver's policy
        # numbers (one CC sector + replica update, two allocations, every maintain / drop declaration shape incl.
        # repeated ids and two declarations per message); thorough adds a second extension round and the
        # pre-commit / ProveCommitSectors3 path
        mc=[dict(module="MC_Claims", cfg=tiered("MC_Claims.cfg", "MC_Claims_thorough.cfg"),
                 timeout=tiered(1500, 5400), workers=4),
            # the pre-commit / ProveCommitSectors3 path (sectors live 2953 epochs): one / two allocations
            dict(module="MC_Claims", cfg=tiered("MC_Claims_pcq.cfg", "MC_Claims_pc.cfg"),
                 timeout=tiered(900, 3600), workers=4)],
        sim=dict(module="MC_Claims", cfg="Sim_Claims.cfg", num=tiered(12, 30), depth=30),
        tour_cap=tiered(500, 5000),
        driver="claims",
        driver_args=lambda tier: ["--random", 40 if tier == "quick" else 1500, "--len", 80],
        trace=dict(module="Trace_Claims", cfg_in="Trace_Claims.cfg.in", timeout=4 * 3600, split=4),
        props=["C10"],
    ),
    "power": dict(
        # the storage power actor itself: claims, totals under the consensus-minimum rule, cron queue, pledge total
        # (built by a builder sub-agent from notes/BRIEF-POWER.md; details in notes/POWER.md)
        mc=[dict(module="MC_Power", cfg=tiered("MC_Power.cfg", "MC_Power_thorough.cfg"),
                 timeout=tiered(1500, 5400), workers=4),
            # the tick's claim-deletion loop as coded counts a twice-failing miner twice: TLC must find it (notes/POWER.md 6)
            dict(module="MC_Power", cfg="MC_Power_count.cfg", timeout=tiered(600, 600), workers=2,
                 expect_violation="InvCount")],
        sim=dict(module="MC_Power", cfg="Sim_Power.cfg", num=tiered(12, 300), depth=40),
        tour_cap=tiered(400, 10 ** 9),
        driver="power",
        driver_args=lambda tier: ["--random", 40 if tier == "quick" else 3000, "--len", 45],
        trace=dict(module="Trace_Power", cfg_in="Trace_Power.cfg.in", timeout=2 * 3600, split=tiered(4, 8)),
        props=["C02", "C03", "C05", "C11"],
    ),
}

# property -> suites whose traces carry formulas tagged with that property
PROPS = {
    "C16": dict(suites=["paych"], title="Payment channel: vouchers redeem once and the payout is exact"),
    "C01": dict(suites=["sectors", "market", "paych"], title="No FIL is created, lost or stranded: conservation and solvency"),
    "C02": dict(suites=["sectors", "power"], title="Power is credited exactly for proven, healthy, unexpired sectors"),
    "C03": dict(suites=["sectors", "power"], title="Collateral ledgers are exact: pledge, deposits and the network pledge total"),
    "C04": dict(suites=["sectors"], title="Sector bookkeeping stays a consistent partition of the miner's sectors"),
    "C05": dict(suites=["sectors", "market", "power"], title="The epoch cron never fails and keeps every active miner on schedule"),
    "C09": dict(suites=["verif"], title="DataCap is conserved and each allocation is spent exactly once"),
    "C06": dict(suites=["market"], title="Market escrow: locked funds equal outstanding deal obligations"),
    "C07": dict(suites=["market"], title="Deal payments are exact and independent of the settlement schedule"),
    "C08": dict(suites=["market"], title="Deal lifecycle: unique publication, one timely activation by the provider"),
    "C13": dict(suites=["minerctl"], title="Control of a miner changes hands only by two-sided, delayed handover"),
    "C14": dict(suites=["sectors", "minerctl"], title="Miner funds unlock only on schedule; withdrawals never touch collateral"),
    "C15": dict(suites=["sectors"], title="Faults and early terminations are always paid for"),
    "C12": dict(suites=["multisig"], title="Multisig: spending needs a quorum of current signers, once, within the lock"),
    "C20": dict(suites=["initd"], title="Actor identities are unique, stable and derived as specified"),
    "C17": dict(suites=["evm17"], title="EVM instructions compute what the Ethereum specification says"),
    "C18": dict(suites=["evm18"], title="EVM execution is total, bounded and respects read-only mode"),
    "C19": dict(suites=["evmcalls"], title="EVM contract state stays coherent across nested, re-entrant and reverted calls"),
    "C11": dict(suites=["access", "power"], title="Privileged methods are callable only by their designated callers"),
    "C10": dict(suites=["claims", "verif"], title="Verified claims back quality-adjusted power and obey their terms"),
}

NOT_BUILT = "check not built yet in this round (work in progress; see DESIGN.md build order)"
NOT_APPLICABLE = {p: NOT_BUILT for p in
                  []}

_MKT = ("Bounded exhaustive TLC model checking of spec/Market.tla with the REAL protocol constants (180-day minimum duration, 30-day cron interval; time jumps only between deal boundaries and scheduled cron epochs, so the state space is small and every behaviour is replayable 1:1): every interleaving of deposits, withdrawals, batch publication with invalid entries, both activation paths, settlement, sector termination and the per-epoch cron over <= 2 deals; formulas as invariants over state + event-derived ghosts and as action properties. Conformance: a transition tour of the model, TLC simulation behaviours and guided random schedules run on the real market actor with real miner actors as providers; every recorded step validated by TLC. ")
_SEC = ("System-level conformance: guided random schedules of USER messages only (pre-commit, prove-commit, non-interactive commit, Window PoSt with skipped sets, fault / recovery declarations, terminations, extensions over several partitions and deadlines with claim declarations, compaction, DataCap allocations and ProveReplicaUpdates3 with verified pieces, withdrawals, block rewards, consensus-fault reports, disputes, fault-plan injections; every sixth trace is goal-directed towards a rare configuration: multi-deadline replica update / extension with claim drops, termination backlog with compaction, fee debt meeting a fault time-out) plus the per-epoch cron are run on the real miner, power, reward, cron and market actors under a scaled-down policy (4 deadlines x 6 epochs, 2 KiB sectors, partition size 2), miners created through the real power actor; after every message and tick the full projected state (every partition bitfield, memo, expiration queue, claim, cron queue, balance) is validated by TLC against the Layer-P formulas of spec/SectorsP.tla written from the protocol. ")
LEVEL_TEXT = {
    "C18": "spec/EVM.tla is total by construction (every byte string has exactly one outcome: stop/return, revert, or one of undefined / invalid / underflow / overflow / bad jump destination / memory beyond the 32-bit limit / memory cap / read-only violation); TLC checks totality (no deadlock), the stack bound, 'pc never inside push data', 'jump destinations = JUMPDEST bytes at instruction boundaries' and 'no storage write in a static frame' over every byte string up to a small length over reduced alphabets, in normal and static context (MC_EVM). Conformance: arbitrary byte strings (uniformly random, instruction-sequence grammar, mutated from valid generated programs) are deployed through the real EAM as runtime code, run as init code (and the contracts they create are then called), and run beneath STATICCALL at nesting depth 1-3 through CALL / DELEGATECALL / STATICCALL proxy chains (the VM, like the repository's reference test_vm, does not police events in read-only mode: the actor must refuse by itself), a stack-limit edge family (1024 one-word pushes followed by ONE instruction of every kind), with code biased towards SSTORE, TSTORE, LOG0-4, CREATE, CREATE2, SELFDESTRUCT and CALL-with-value. TLC validates every recorded interpreter step: stack depth <= 1024, memory size within the bound, every taken JUMP/JUMPI lands one past a byte that the specification's jump-destination analysis accepts; at the end of every run: no panic, no unexplained exhaustion of the step budget, the outcome class is a defined one and equals the specification's whenever the program stays inside the specified instruction set (the static frames are re-executed by the specification with static = TRUE: a state-changing instruction must end the frame); after every static call the whole state tree (code, state root and balance of every actor, the set of actors) and the event list are unchanged.",
    "C01": _SEC + "C01 formulas: TotalFilConstant, LedgerDelta (every actor's balance change equals the effective transfers of the invocation tree, failed messages change nothing), MinerSolvent, MinerSolventRecomputed (the same inequality over the deposits of the outstanding pre-commitments, the vesting table and the pledge of the live sectors instead of the miner's own totals), MarketSolvent (Market suite), paych Solvent (Paych suite), RewardNeverFails, MarketNoStranding (what the market holds beyond the escrow balances never changes through a market operation; also an action property of the model-checked Market module); also under injected failures of tolerated nested sends.",
    "C02": _SEC + "C02 formulas: PowerIsActive (claim = sum over proven, non-faulty, non-terminated sectors recomputed from partition bitfields), TotalsOK (consensus-minimum rule), ProvenOnlyByPoSt / RecoveredOnlyByPoSt (a sector enters the active set only through an accepted Window PoSt naming its partition; a faulty one only if it was declared recovering), SkippedFaulted, MissedPoStFaulted (every deadline that closes during a tick leaves the live sectors of its unproven partitions faulty or terminated). Power suite: bounded exhaustive TLC model checking of spec/Power.tla, the storage power actor structured like the code (add_to_claim's threshold-crossing cases, the miner_above_min_power_count / CONSENSUS_MINER_MIN_MINERS regime switch of current_total_power, claim deletion by the tick), every interleaving of CreateMiner, UpdateClaimedPower with deltas crossing the threshold in both directions, cron enrolments and ticks with failing callbacks by miners with and without a claim and by non-miners, with a transition tour; conformance: tour, simulation behaviours (real regime constant 4) and guided random schedules on the real power actor with real miner actors (power updates sent as those miners), CurrentTotalPower called after every step; formulas TotalsRule (what would be frozen = sum over claims >= minimum if at least MinMiners reach it, else over all claims; committed totals; above-minimum count), StoredTotals, ReportRule (the reported values are the frozen ones and equal the rule right after every tick), ClaimsNonNeg, ClaimsChangeOnlyByOwner.",
    "C03": _SEC + "C03 formulas: PledgeExact, DepositsExact, VestExact, NonNegLedgers, NetPledgeTotal (literal; known finding F1 is reported when only the exact adjusted identity holds), NetPledgeNonNeg, PledgeTotalNeverBlocks. Power suite (same model and traces): PledgeTotalNonNeg (the network pledge total and its frozen copy are never negative: an update that would make it negative aborts), PledgeFrame (the total changes only by an accepted UpdatePledgeTotal of a miner holding a claim, by exactly its delta).",
    "C04": _SEC + "C04 formulas: SetsNest, OnePartition, PartMemos, DlMemos, EarlyDls, QueueOK, DlQueueCovers (the deadline-level expiration queue names every partition at every epoch of that partition's own queue), AllocCovers, NumbersFresh (the allocated set only grows; new numbers were unallocated).",
    "C05": _SEC + "C05 formulas: CronNeverFails, NoBalanceInvariantBroken, NoPanic, CronScheduled, CronWhileFunded (known finding F2), DeadlineCurrent, QueueNotStale, NoOverdueExpiry, EarlyTermsScheduled, EarlyTermsProgress (bounded liveness: of the sectors awaiting early-termination processing at least one has been processed two challenge windows later); CronOK in the Market suite. Power suite (same model and traces; the tick is the real cron message, callbacks reach the real miners, failures by undecodable payloads and by fault plans on individual power->miner sends): CronEventsOnlyByMiners, QueueOnlyFutureOrDue, QueueKeeps, TickDrainsDue (after a tick no event with epoch <= now remains), TickDispatchesDue (every due event of a miner with a claim is dispatched exactly once), FailedCallbackDeletesOnlyThatClaim, TickNeverFails, CronNeverFails (no callback fails unless made to).",
    "C09": "Bounded exhaustive TLC model checking of spec/VerifReg.tla (verifier/client grants, allocation transfers with extension requests, claim batches with repeated / foreign / mismatched / expired entries in both all-or-nothing modes, expirations, removals, term extensions, DataCap removal) + conformance: transition tour, simulation behaviours and guided random schedules on the real datacap + verifreg + multisig(root) + miner actors; every step validated by TLC. Formulas: SupplyIsSum, SupplyIsMintedMinusBurnt, RegistryHoldsAllocs, AllowanceExact (the allowance falls only by a grant that arrived at the client; clients that cannot receive tokens are among the generated ones), MintOnlyByGrant, AllocFate, ClaimsFromAllocs, IdsFresh.",
    "C10": "Bounded exhaustive TLC model checking of spec/Claims.tla, the composition of the verified registry (spec/VerifReg.tla) with one miner's sectors, under the driver's scaled-down policy (4 deadlines x 6 epochs, 72-epoch minimum sector life, 48-epoch end-of-life claim-drop period, claim terms of 24..4000 epochs) so that every behaviour replays 1:1: allocation transfers, non-interactive commitment of a CC sector, ProveReplicaUpdates3 / PreCommit + ProveCommitSectors3 with piece manifests naming open, stale, repeated and foreign allocation ids, ExtendSectorExpiration2 with every maintain / drop declaration shape (missing, partial, repeated, foreign and previously dropped ids; one or two declarations per message, the same sector twice), ExtendClaimTerms, RemoveExpiredClaims / RemoveExpiredAllocations, TerminateSectors, and time jumps to every epoch where something changes (first proof, deadline mutability, drop period, expiration, expiry cron, term end, allocation expiry); the C10 formulas are invariants (Backed = WeightBacked + ClaimStartsAfterActivation + ExpirationWithinTerms with one witness set of claims) and action properties (ExtendPastMaxOnlyByDrop, DroppedWeightGone, WeightChangesOnlyByDecl, ClaimTermsMonotone, ClaimRemovalOnlyExpired, AllocRemovalOnlyExpired). With the extension rule as first written (constants DupIdsAllowed / MultiDeclAllowed, spec/MC_Claims_F5.cfg, MC_Claims_F7.cfg) TLC finds the repeated-id and the twice-declared-sector counterexamples in under a minute. Conformance: a transition tour of the model, TLC simulation behaviours and guided random schedules (both onboarding paths, sectors living ~3000 epochs on the pre-commit path) run on the real datacap, verified-registry, miner, power and cron actors (miner created through the power actor, cron every epoch, the driver submits every due Window PoSt); after every call the registry (from its state AND through GetClaims), every sector's activation / expiration / power-base epoch / verified weight / partition flags and the power actor's claim are validated by TLC: Layer P = the formulas above plus WeightIsSpaceTimesDuration, GetClaimsAgrees, QAPowerFalls, RejectedIsNoop; Layer R = verdict, batch results and post-state equal the model's. The registry-only clauses are additionally decided by the VerifReg suite (ClaimTermsMonotone, ClaimRemovalOnlyExpired).",
    "C17": "spec/Words.tla + spec/EVM.tla are an executable TLA+ transcription of the Yellow Paper / EIP semantics of the arithmetic, comparison, bitwise, stack, memory, storage, transient-storage, call-data/code/return-data copying, hashing (uninterpreted), control-flow and RETURN/REVERT instructions (Words.tla is cross-checked against Python integers on 5 685 generated vectors). TLC model-checks the machine's own invariants and totality over every byte string up to a small length (MC_EVM). Conformance: generated programs (every instruction over the boundary lattice: all pairs for binary, sampled triples for ternary instructions; memory/copy/storage/jump case families; deliberately ill-formed programs; all tiny byte strings of the model's alphabets; generated multi-instruction programs with loops, jumps, memory growth, storage and calldata) are deployed through the real EAM and run in the real interpreter on the recording VM with a per-step observer; TLC re-executes every program in the specification and compares every recorded step (pc, opcode, stack content, memory size) and the final outcome class, return/revert data and contract storage (read from the KAMT and via GetStorageAt).",
    "C06": _MKT + "C06 formulas: LockedIsObligation, LockedLeqEscrow, TotalsMatch, WithdrawExact, EscrowOnlyOwnMoves.",
    "C07": _MKT + "C07 formulas: EscrowExplained (every party's escrow equals deposits - withdrawals +/- the ideal per-deal payment formula at every moment, whatever the settlement schedule), BurnExact, EndLegit.",
    "C08": _MKT + "C08 formulas: IdsFresh, NoTwinDeals, PendingIsLive, PublishRules, PublishFunded, ActivationRules, ActivatedOnce.",
    "C14": _SEC + "C14 formulas: VestShape (the vesting table is sorted, positive, sums to locked_funds), DepositVestsOnSchedule (a fresh miner holds exactly the 180-step schedule of its creation deposit counted from its creation epoch), VestNotOverdue (with the cron running no matured entry stays locked for more than two challenge windows; day-long ticks make entries mature), WithdrawRepaysDebt (what was owed before a successful withdrawal was burnt in that call; the payout never exceeds the request), RewardVestsOnSchedule (each ApplyRewards / creation deposit adds exactly the linear 180-step schedule, quantised to the miner's proving-period offset, recomputed in the specification), NoEarlyUnlock (locked funds decrease only by entries whose epoch has passed, or to pay the miner's own penalties), WithdrawBounded (the amount sent equals min(requested, balance - locked - pre-commit deposits - pledge) after full debt repayment, goes to the beneficiary only, is refused for other callers and while early terminations are pending). Beneficiary quota / expiry / who-may-withdraw are decided in the MinerControl suite (exhaustive model + tour + real miner).",
    "C15": _SEC + "C15 formulas: ContinuedFaultCharged (for every deadline that closes, the faulty QA power at that moment priced by the protocol's own fee function with the estimates the callback reads -- computed per epoch by the driver -- is at most what left the miner as burn or new fee debt in that tick), DisputePenalised (a successful dispute takes power and money; with the transfer to the disputer failing it charges exactly what its twin execution on a checkpoint charges when the transfer succeeds), DebtOnlyRepaidByBurn (fee debt never just disappears), miners drained to exactly their locked deposit so that penalties become debt, DebtBlocks (while fee debt is outstanding and cannot be repaid, pre-commit, recovery declaration and withdrawal are refused), BurnMonotone / NoFlowFromBurn (the burnt-funds actor only receives; every penalty transfer is non-negative and none goes to the miner or its owner), ConsensusFaultPaid (burnt + paid to reporter + new fee debt = the consensus-fault penalty; the reporter's share never exceeds what was taken; also with the reporter transfer failing by fault-plan injection), TerminationFeeFloor (every sector whose early termination is processed pays at least 2% of its pledge, and the total never exceeds the cap), CronTerminationFee (the same floor for the sectors that leave the early-termination queues, or are terminated early and processed at once, during a tick); that a missed or skipped proof removes the power is decided by PowerIsActive (C02) and the lifecycle model binding.",
    "C13": "Bounded exhaustive TLC model checking of spec/MinerControl.tla (all interleavings of the owner, worker and beneficiary hand-over protocols, withdrawals, the cron pending-worker step and epoch advances by owner, proposed owner, beneficiary, nominee and strangers; C13 formulas as action properties over a ghost that re-derives approvals from the accepted calls) + conformance: TLC-exported behaviours and random schedules run on a real miner actor created through the power actor; each recorded step is validated by TLC.",
    "C12": "Bounded exhaustive TLC model checking of spec/Multisig.tla (every interleaving of propose/approve/cancel by signers and outsiders with admin transactions and re-entrant self-calls executed inside the approving step, within small constants) + conformance: TLC-exported behaviours and random schedules run on the real multisig actor (created through init, inner sends really executed) and each recorded step is validated by TLC against the C12 formulas and the spec's transition function.",
    "C16": "Bounded exhaustive TLC model checking of spec/Paych.tla (all voucher/settle/collect interleavings within small constants, C16 formulas as invariants and action properties) + conformance: TLC-exported behaviours and random schedules are executed on the real paych actor and every recorded step is validated by TLC against the same formulas and the spec's transition relation.",
    "C20": "Bounded exhaustive TLC model checking of spec/Init.tla (init.Exec/Exec4 creator-code matrix, EAM CreateExternal, CREATE/CREATE2 issued by contracts running nested programs with reverting frames, failing constructors, self-destruct and resurrection, auto-created accounts and placeholders, deployments landing on placeholders; the C20 formulas as action properties over (pre-state, call + observed creations, post-state), Keccak/RLP as an injective uninterpreted function) + conformance: a transition tour of the model, TLC simulation behaviours and guided random schedules run on the real init, EAM, EVM, multisig, paych, power/miner actors (contracts are real EVM bytecode interpreting the programs); every recorded step validated by TLC; the literal CREATE/CREATE2 address bytes are re-computed by the harness with its own RLP + Keccak-256 (formula AddrFormula).",
    "C11": "spec/Access.tla states the INTENDED caller-permission table of all 16 built-in actor types (every dispatched method number, exported FRC-42 aliases as separate rows, parameter variants where the designated set depends on what the parameters name, deprecated / never-assigned numbers and the FRC-42 numbers internal-only methods would get if exported) over 29 caller classes (9 singletons, a miner, accounts in every role of the fixture - owner, worker, control, beneficiary, nominee, pending owner, signer, proposer, payer, payee, verifier, client, operator -, an outside account, an EthAccount, an EVM contract, non-built-in code, the root multisig, the actor itself), written from the method documentation and FIPs. TLC checks the table-level invariants (internal numbers never admit contracts or unknown code outside EAM/EVM, constructors only init/system, protocol-plumbing methods admit exactly one class, undefined numbers admit nobody, aliases agree) and enumerates the whole finite matrix, exporting every cell. Conformance, exhaustive over the matrix: every cell is executed on the real actors from a fresh copy of a rich fixture world (two fixture states, two parameter modes: well-typed defaults, and parameters for which the designated caller succeeds) with the caller class impersonated as the message sender; per cell TLC evaluates NonDesignatedRejected (rejected and state tree unchanged), DesignatedAccepted (never refused by a caller check; exit 0 with success parameters), RestrictiveCheckAgrees, ValidatedBeforeEffects, CompletedImpliesValidated, InternalNotForEvm, UndefinedRejected, NoPanic. Power suite (same model and traces): CallerRules (UpdateClaimedPower / EnrollCronEvent / UpdatePledgeTotal refused for non-miner callers, OnEpochTickEnd for anybody but cron, power and pledge updates only for miners holding a claim, CreateMiner by anyone), DesignatedAccepted, RejectedIsNoop, CreateForwardsValue.",
    "C19": "Bounded exhaustive TLC model checking of spec/EVMCalls.tla, the ideal semantics of a system of script-running contracts (per-contract storage, transient storage per message, balances, tombstones, journalled revert, DELEGATECALL / STATICCALL contexts, CREATE/CREATE2 incl. resurrection, SELFDESTRUCT): every script of a generated alphabet (write/call/read patterns over all call kinds and targets, nesting 3 with re-entrancy, reverting / aborting / self-destructing callees) from two initial worlds, with the semantics' meta-properties (a reverted or aborted sub-call leaves the world unchanged, static calls have no effect, transient storage is empty at message start, delegate code runs on the caller's storage, destroyed contracts are empty) as invariants + conformance: the transition tour, TLC simulation behaviours and guided random scripts are compiled to call data for a script-interpreter contract (real EVM bytecode deployed through the real EAM) and run on the real EVM actor; every value read inside the call tree, the outcome, every contract's storage (GetStorageAt), code (GetBytecode), balances, tombstones and effective events are validated by TLC against the ideal semantics (formulas ReadsCoherent, TransientScope, DelegateContext, StorageCoherent, BalancesCoherent, LogsCoherent, TombstoneCoherent, RevertLeavesNoTrace, StaticNoEffect, DestroyedIsEmpty, TombstoneLifecycle).",
}
LEVEL_NOTE = {
    "default": "Trusted: verif_vm (native Runtime implementation derived from test_vm), the driver's abstract-call -> message mapping and state projection, TLC. Bounded: model constants in spec/MC_*.cfg; real traces cover only explored schedules.",
}
TECHNIQUE = {
    "default": "TLA+ spec + TLC model checking + trace validation of real-actor executions (both directions)",
}
