#!/usr/bin/env python3
"""Regenerates MANIFEST.json from suites.py (claimed properties) + the static parts below."""
import json, os, sys
sys.path.insert(0, os.path.dirname(os.path.abspath(__file__)))
from suites import PROPS, SUITES, NOT_APPLICABLE, LEVEL_TEXT, LEVEL_NOTE, TECHNIQUE

all_ids = [json.loads(l)["id"] for l in open(os.path.join(os.path.dirname(__file__), "properties.jsonl"))]
checks = []
for pid in all_ids:
    if pid not in PROPS:
        continue
    checks.append({
        "property_id": pid,
        "quick_cmd": f"./check {pid} --tier quick",
        "thorough_cmd": f"./check {pid} --tier thorough",
        "evidence_file": f"/verif/evidence/{pid}.json",
        "replay_cmd_template": f"./check {pid} --replay {{path}}",
        "engine": "tla-trace-binding",
        "level_claimed": {"category": "model_checking", "text": LEVEL_TEXT[pid], "design_ref": "DESIGN.md §6 " + pid},
        "level_note": LEVEL_NOTE.get(pid, LEVEL_NOTE["default"]),
        "technique": TECHNIQUE.get(pid, TECHNIQUE["default"]),
    })
na = [{"property_id": p, "reason": NOT_APPLICABLE[p]} for p in all_ids if p not in PROPS]
m = {
    "version": 1,
    "setup_cmd": "cp /repo/Cargo.lock harness/Cargo.lock && cd harness && CARGO_NET_OFFLINE=true cargo build --release --offline",
    "hooks": {
        "guard": "filecoin_project_builtin_actors_verif",
        "enable": "harness/.cargo/config.toml: rustflags = [\"--cfg\", \"filecoin_project_builtin_actors_verif\", \"--check-cfg\", \"cfg(filecoin_project_builtin_actors_verif)\"] (applies to /repo crates built as path dependencies of the harness)",
        "baseline_off_cmd": "cd /repo && cargo nextest run --workspace --no-fail-fast --test-threads 8 --offline || cargo test --workspace --no-fail-fast --offline",
        "source_commits": HOOK_COMMITS if (HOOK_COMMITS := json.load(open(os.path.join(os.path.dirname(__file__), "hooks.json")))["commits"]) is not None else [],
        "add_only": True,
    },
    "engines": [{
        "name": "tla-trace-binding",
        "path": "/verif/check",
        "serves_properties": [c["property_id"] for c in checks],
        "kind_free_text": "explicit TLA+ specifications (spec/*.tla) model-checked with TLC; TLC-exported behaviours and seeded random schedules executed on the real actors by a recording VM (harness/); recorded traces validated against the specification with TLC (spec/Trace_*.tla)",
    }],
    "checks": checks,
    "not_applicable": na,
    "notes": "See DESIGN.md. VIOLATION lines come only from property formulas (Layer P) evaluated on real recorded steps; refinement mismatches are DRIFT diagnostics (exit 0). known_findings.json lists genuine defects (fixed ones suppress nothing).",
}
json.dump(m, open(os.path.join(os.path.dirname(__file__), "MANIFEST.json"), "w"), indent=1)
print("claimed:", [c["property_id"] for c in checks], "not_applicable:", [n["property_id"] for n in na])
